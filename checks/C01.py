"""C01 — convolution commutes with the symmetry group (rotations, reflections, shifts).

For every cell of the option alphabet and EVERY g in B_d:  conv(g.A, g.C; g.opts) == g.conv(A, C; opts), where A
ranges over the full one-hot basis (batch axis), C over the full one-hot basis (out-channel axis), g. is the
independent reference action at type (k+k', p+p') and per-axis options (flags, paddings, dilations, filter
extents) travel with their axes. On toroidal axes (TORUS padding, no image dilation) every cyclic shift as well.
Plus the class-level entry point (declared parity p+p' and order k+k').
"""
import itertools as it

import numpy as np

from vlib import explore
from vlib.gj import viol, rng_for
from vlib.ref import group as G
from vlib.ref.action import ref_action, perm_axes

ID = "C01"
LEVEL = "exploration"
DESIGN_REF = "DESIGN.md §4 C01"
RULE = (
    "cells of the option product enumerated simplest-first by deviations from the default cell; in every enabled cell "
    "ALL g in B_d (8 / 48) and all cyclic shifts on wrapped axes are executed on geom.convolve with the full one-hot "
    "basis x basis table, compared exactly (==). evaluations = number of (cell, g) and (cell, shift) identities. "
    "Non-trivial = output table not identically zero and some g moves it (g.out != out), counted; distinct = cell."
)
ASSUMPTIONS = [
    "unit stride (as the property states); L2: d in {2,3}, extents <= 5, filter side <= 5, k,k' <= 2 (d=3: k+k' <= 2 quick: <= 1)",
    "bilinearity (checked in C04) + equality on the basis x basis table = equality for all real images and filters",
    "the reference action is independent of ginjax (vlib/ref/action.py, self-tested homomorphism)",
    "TORUS + image dilation: translation equivariance is not claimed (property excludes it); group covariance is still checked",
]

BASIS_CAP = 6_000_000
CENTRE2 = {"ext": [3, 5], "k": 2, "kf": 0, "M": [3, 3], "torus": [True, False], "pad": "SAME", "rhs": 2, "lhs": None}


def _dims(d, tier):
    if d == 2:
        return {
            "ext": [[4, 4], [3, 5], [5, 2], [1, 4]],
            "k": [1, 0, 2],
            "kf": [1, 0, 2],
            "M": [[3, 3], [1, 1], [2, 2], [4, 4], [1, 3]] + ([[5, 5]] if tier == "thorough" else []),
            "torus": [[True, True], [False, False], [True, False], [False, True]],
            "pad": [None, "TORUS", "SAME", "VALID", 1, [[1, 1], [2, 2]]],
            "rhs": [1, 2, [1, 2], 3, [3, 1]],
            "lhs": [None, [2, 2], [2, 1]],
        }
    return {
        "ext": [[3, 3, 3], [2, 3, 4]],
        "k": [0, 1] + ([2] if tier == "thorough" else []),
        "kf": [1, 0] + ([2] if tier == "thorough" else []),
        "M": [[3, 3, 3], [1, 1, 1], [2, 2, 2], [1, 3, 2]],
        "torus": [[True, True, True], [False, False, False], [True, False, False], [False, True, True]],
        "pad": [None, "TORUS", "SAME", "VALID", 1, [[1, 1], [2, 2], [0, 0]]],
        "rhs": [1, 2, [1, 2, 1], 3],
        "lhs": [None, [2, 2, 2], [1, 2, 1]],
    }


def bounds(tier):
    return {
        "dims_d2": _dims(2, tier),
        "dims_d3": _dims(3, tier),
        "deviation_bound": {"quick": {"d2": 3, "d3": 2}, "thorough": {"d2": 5, "d3": 3}}[tier],
        "group": "all of B_d",
        "shifts": "all cyclic shifts on wrapped axes (TORUS padding, no image dilation)",
        "class_level": "GeometricImage.convolve_with for (p,p') in {0,1}^2, k,k' in {0,1}, all g",
    }


def enabled(c):
    if any(m % 2 == 0 for m in c["M"]) and c["pad"] in (None, "TORUS", "SAME"):
        return False
    if c["d"] == 3 and c["k"] + c["kf"] > 2:
        return False
    return True


def cases(tier, seed):
    out = []
    plan = {"quick": {2: 3, 3: 2}, "thorough": {2: 5, 3: 3}}[tier]
    for d in (2, 3):
        for cell, dev in explore.cells(_dims(d, tier), plan[d]):
            c = dict(cell, d=d, dev=dev, kind="cell")
            c["grp"] = f"{d}/{c['ext']}/{c['k']}/{c['kf']}/{c['M']}"
            c["cost"] = 8 if d == 3 else 1
            out.append(c)
    for cell, dev in explore.cells(explore.recentre(_dims(2, tier), CENTRE2), 2):
        c = dict(cell, d=2, dev=dev + 10, kind="cell")
        c["grp"] = f"2/{c['ext']}/{c['k']}/{c['kf']}/{c['M']}"
        c["cost"] = 1
        out.append(c)
    out = explore.dedupe(out, lambda c: repr(sorted((k, str(v)) for k, v in c.items() if k not in ("dev", "grp", "cost"))))
    for d in (2, 3):
        out.append({"d": d, "kind": "class", "cost": 10})
    return out


def _t(x):
    if isinstance(x, list):
        return tuple(_t(v) for v in x)
    return x


def _class_case(case, seed):
    import jax.numpy as jnp
    import ginjax.geometric as geom

    D = case["d"]
    v = []
    evals = 0
    rng = rng_for(0, "C01class", D)
    B = G.Bd(D)
    sp = (3, 4) if D == 2 else (2, 3, 3)
    moved = False
    for k, kf, p, pf in it.product((0, 1), (0, 1), (0, 1), (0, 1)):
        for flags in (((True,) * D), (True,) + (False,) * (D - 1)):
            a = rng.integers(-3, 4, size=sp + (D,) * k).astype(np.float32)
            c = rng.integers(-3, 4, size=(3,) * D + (D,) * kf).astype(np.float32)
            A_ = geom.GeometricImage(jnp.asarray(a), p, D, flags)
            C_ = geom.GeometricImage(jnp.asarray(c), pf, D, flags)
            r0 = A_.convolve_with(C_)
            if (r0.k, r0.parity) != (k + kf, (p + pf) % 2):
                if len(v) < 5:
                    v.append(viol(f"C01/class/declared-type/p={p},pf={pf}", f"convolve_with declares (k,p)={(r0.k, r0.parity)}, expected {(k + kf, (p + pf) % 2)}", case=case))
            base = np.asarray(r0.data)
            for g in B:
                gA = geom.GeometricImage(jnp.asarray(ref_action(a, p, g, D)), p, D, perm_axes(flags, g))
                gC = geom.GeometricImage(jnp.asarray(ref_action(c, pf, g, D)), pf, D, perm_axes(flags, g))
                lhs = gA.convolve_with(gC)
                rhs = ref_action(base, r0.parity, g, D)  # transform with the DECLARED parity
                evals += 1
                if np.asarray(lhs.data).shape != rhs.shape or not np.array_equal(np.asarray(lhs.data), rhs):
                    if len(v) < 5:
                        v.append(viol(f"C01/class/covariance/p={p},pf={pf}", f"(g.A)*(g.C) != g.(A*C) with the declared parity {r0.parity} for g={g.tolist()}, k={k},k'={kf},p={p},p'={pf}", case=case))
                    break
                if not np.array_equal(rhs, base):
                    moved = True
                # the same identity with g.A and g.C produced by the library's own action (flags travel with the image)
                lib = A_.times_group_element(np.array(g)).convolve_with(C_.times_group_element(np.array(g)))
                evals += 1
                if np.asarray(lib.data).shape != rhs.shape or not np.array_equal(np.asarray(lib.data), rhs):
                    if len(v) < 5:
                        v.append(viol("C01/class/library-action", f"(g.A)*(g.C) != g.(A*C) when g.A, g.C come from times_group_element: g={g.tolist()}, flags={flags}, k={k},k'={kf},p={p},p'={pf}", case=case))
                    break
    return {"violations": v, "nt": moved, "evals": evals, "outcome": f"class/d{D}"}


def run_case(case, seed):
    if case["kind"] == "class":
        return _class_case(case, seed)
    if not enabled(case):
        return {"status": "disabled"}
    import jax.numpy as jnp
    import ginjax.geometric as geom

    D = case["d"]
    sp, M, k, kf = tuple(case["ext"]), tuple(case["M"]), case["k"], case["kf"]
    torus, pad, rhs, lhs = _t(case["torus"]), _t(case["pad"]), _t(case["rhs"]), _t(case["lhs"])
    B = G.Bd(D)
    v = []
    evals = 0

    def conv(a, c, tor, pd, ld, rd):
        return np.asarray(geom.convolve(D, jnp.asarray(a), jnp.asarray(c), tor, 1, pd, ld, rd))

    nimg = int(np.prod(sp)) * D**k
    nflt = int(np.prod(M)) * D**kf
    A_ = np.eye(nimg, dtype=np.float32).reshape((nimg, 1) + sp + (D,) * k)
    C_ = np.eye(nflt, dtype=np.float32).reshape((nflt, 1) + M + (D,) * kf)
    base = conv(A_, C_, torus, pad, lhs, rhs)
    if base.size > BASIS_CAP:
        # too large for the full table: use a strided sub-basis of the image (still exact, still all g)
        step = int(np.ceil(base.size / BASIS_CAP))
        A_ = A_[::step]
        base = conv(A_, C_, torus, pad, lhs, rhs)
    padkind = "explicit" if isinstance(pad, tuple) else str(pad)
    tag = f"pad={padkind}/rhs={'1' if rhs == 1 else ('iso' if isinstance(rhs, int) else 'aniso')}/lhs={'none' if lhs is None else 'n'}"
    moved = False
    for g in B:
        gA = ref_action(A_, 0, g, D, lead=2)
        gC = ref_action(C_, 0, g, D, lead=2)
        tg = perm_axes(torus, g)
        pg = perm_axes(pad, g) if isinstance(pad, tuple) else pad
        rg = perm_axes(rhs, g) if isinstance(rhs, tuple) else rhs
        lg = perm_axes(lhs, g) if isinstance(lhs, tuple) else lhs
        lhs_val = conv(gA, gC, tg, pg, lg, rg)
        rhs_val = ref_action(base, 0, g, D, lead=2)
        evals += 1
        if lhs_val.shape != rhs_val.shape or not np.array_equal(lhs_val, rhs_val):
            kind = "reflection" if G.det(g) < 0 else "rotation"
            if len(v) < 4:
                v.append(viol(f"C01/covariance/{tag}/{kind}", f"conv(g.A,g.C) != g.conv(A,C) for g={g.tolist()} (shape {lhs_val.shape} vs {rhs_val.shape})", case=case, g=g.tolist()))
        if rhs_val.shape != base.shape or not np.array_equal(rhs_val, base):
            moved = True
    # cyclic translations on wrapped axes
    resolved = pad if pad is not None else ("TORUS" if any(torus) else "SAME")
    if resolved == "TORUS" and lhs is None and base.size:
        axes = [i for i in range(D) if torus[i]]
        for sh in it.product(*[range(sp[i]) for i in axes]):
            if not any(sh):
                continue
            shift = [0] * D
            for i, s_ in zip(axes, sh):
                shift[i] = s_
            sA = np.roll(A_, shift, axis=tuple(range(2, 2 + D)))
            got = conv(sA, C_, torus, pad, lhs, rhs)
            exp = np.roll(base, shift, axis=tuple(range(2, 2 + D)))
            evals += 1
            if got.shape != exp.shape or not np.array_equal(got, exp):
                if len(v) < 4:
                    v.append(viol(f"C01/translation/{tag}", f"conv(shift A, C) != shift conv(A,C) for shift {shift}", case=case))
                break
    nontriv = bool(base.size and np.any(base != 0) and moved)
    return {"violations": v, "nt": nontriv, "evals": evals, "outcome": f"d{D}/{tag}/empty={base.size == 0}"}


CLAIM = {
    "text": "Every enabled cell within the deviation bound (quick: 3 deviations d=2, 2 in d=3; thorough: 5 deviations d=2 (of 8 dimensions), 3 deviations d=3) is executed for ALL g in B_d and all cyclic shifts, on the full one-hot basis x basis table with exact ==, against an independent reference action; per-axis options travel with their axes. Class-level entry point checked for declared type and covariance with the declared parity.",
    "note": "Trusted: vlib/ref/action.py; bilinearity of convolve (C04). Unit stride only. Cells beyond the deviation bound are not visited in the quick tier.",
    "technique": "deviation-bounded exhaustive enumeration of configuration cells x all group elements x all shifts, exact comparison with a reference action",
}
