"""C02 — the group action on images is a genuine, type-correct group action.

Alphabet: d in {1,2,3}; every spatial shape up to the bound (incl. extent 1 and pairwise distinct extents);
k; p; all 2^d boundary flags; entry points {array function, GeometricImage, MultiImage with 0/1/2 leading axes};
every g in B_d and every ordered pair (g,h) (quick, d=3: generators x all).
Oracle: the defining formula (vlib/ref/action.py) on an identifier image and on the full one-hot basis, exact ==.
"""
import itertools as it
import numpy as np

from vlib.ref import group as G
from vlib.ref.action import ref_action, perm_axes, rotated_dims
from vlib.gj import ident, viol

ID = "C02"
LEVEL = "exploration"
DESIGN_REF = "DESIGN.md §4 C02"
RULE = (
    "one case per (d, spatial shape, k, p); inside a case EVERY g in B_d (singles) and EVERY ordered pair (g,h) "
    "(d=3 quick: generator x all) are executed on the real code through all entry points and all 2^d flag "
    "settings. evaluations = number of (g) and (g,h) identities checked. A case is non-trivial if at least one g "
    "moves a pixel or flips a component of the identifier image (counted: g.A != A); distinct = distinct "
    "(d,shape,k,p)."
)
ASSUMPTIONS = [
    "L2: d<=3, extents<=4 (d<=2) / <=3 plus (2,3,4),(4,2,3) (d=3), k<=3 (d=3 quick: k<=2)",
    "linearity is asserted on integer combinations and the formula on the full one-hot basis (multi-image entry point, basis on the channel axis); float32 arithmetic on small integers is exact",
    "reference action is checked to be a homomorphism by selftest.py",
]


def bounds(tier):
    return {
        "d": [1, 2, 3],
        "shapes": "d=1: 1..4; d=2: all of [1..4]^2; d=3: "
        + ("all of [1..3]^3 + (2,3,4),(4,2,3)" if tier == "thorough" else "all of [1..3]^3 + (2,3,4),(4,2,3); all (k,p) on every multiset of extents and every axis order of pairwise distinct extents, (k,p) in {(0,0),(1,1)} on the remaining axis orders"),
        "k": "d=1: 0; d=2: 0..3; d=3: 0..2" + (" (+3 thorough)" if tier == "thorough" else ""),
        "p": [0, 1],
        "flags": "all 2^d",
        "group": "all of B_d (2/8/48)",
        "pairs": "all ordered pairs" if tier == "thorough" else "all ordered pairs for d<=2; generators x all for d=3",
        "entry_points": ["geom.times_group_element", "GeometricImage", "MultiImage lead 0/1/2"],
    }


def cases(tier, seed):
    out = []
    for n in range(1, 5):
        for p in (0, 1):
            out.append({"d": 1, "shape": [n], "k": 0, "p": p, "pairs": "all"})
    for sh in it.product(range(1, 5), repeat=2):
        for k in range(4):
            for p in (0, 1):
                out.append({"d": 2, "shape": list(sh), "k": k, "p": p, "pairs": "all"})
    shapes3 = list(it.product(range(1, 4), repeat=3)) + [(2, 3, 4), (4, 2, 3)]
    for sh in shapes3:
        # quick: every multiset of extents and every axis order of the pairwise distinct ones get all (k,p); the other
        # axis orders (e.g. (a,b,a)) get (k,p) in {(0,0),(1,1)}
        rep = tier == "thorough" or tuple(sorted(sh)) == sh or len(set(sh)) == 3
        for k in range(4 if tier == "thorough" else 3):
            for p in (0, 1):
                if not rep and (k, p) not in ((0, 0), (1, 1)):
                    continue
                out.append({"d": 3, "shape": list(sh), "k": k, "p": p, "pairs": "all" if tier == "thorough" else "gens"})
    out.append({"d": 0, "operators": True})
    for c in out:
        c["cost"] = {0: 1, 1: 1, 2: 8, 3: 60}[c["d"]]
    # simplest first
    out.sort(key=lambda c: (c.get("d", 0), c.get("k", 0), int(np.prod(c.get("shape", [0]))), c.get("p", 0)))
    return out


def _generators(D):
    if D == 1:
        return [np.array([[-1]])]
    if D == 2:
        return [np.array([[0, -1], [1, 0]]), np.array([[1, 0], [0, -1]])]
    return [
        np.array([[0, 1, 0], [0, 0, 1], [1, 0, 0]]),  # 3-cycle
        np.array([[0, -1, 0], [1, 0, 0], [0, 0, 1]]),  # rotation about z
        np.array([[-1, 0, 0], [0, 1, 0], [0, 0, 1]]),  # reflection
    ]


def _operators_case():
    import ginjax.geometric as geom

    v = []
    for D in (1, 2, 3):
        lib = {G.gkey(m) for m in geom.make_all_operators(D)}
        ref = {G.gkey(m) for m in G.Bd(D)}
        if lib != ref or len(geom.make_all_operators(D)) != len(ref):
            v.append(viol("C02/operators/make_all_operators", f"make_all_operators({D}) is not B_{D}"))
        libc = {G.gkey(m) for m in geom.make_C2_group(D)}
        refc = {G.gkey(np.diag(s)) for s in it.product([1, -1], repeat=D)}
        if libc != refc or len(geom.make_C2_group(D)) != len(refc):
            v.append(viol("C02/operators/make_C2_group", f"make_C2_group({D}) is not C2^{D}"))
    return {"violations": v, "nt": True, "evals": 6, "key": "operators", "outcome": "operators"}


def run_case(case, seed):
    if case.get("operators"):
        return _operators_case()
    import jax.numpy as jnp
    import ginjax.geometric as geom

    D, sp, k, p = case["d"], tuple(case["shape"]), case["k"], case["p"]
    B = G.Bd(D)
    e = np.eye(D, dtype=np.int64)
    shape = sp + (D,) * k
    A0 = ident(shape)
    A1 = ident(shape)[(slice(None, None, -1),) * len(shape)] ** 2  # second integer image
    A1 = np.ascontiguousarray(A1) % 97
    flagsets = list(it.product([True, False], repeat=D))
    if not (k == 0 and p == 0) and D == 3:
        # flag transport does not depend on (k,p): the full 2^d sweep runs in the (k=0,p=0) case of every shape,
        # the other (k,p) cases of a d=3 shape use the all-true and one mixed setting
        flagsets = [flagsets[0], tuple(i % 2 == 0 for i in range(D))]
    v = []
    evals = 0
    moved = False

    def lib_arr(a, g):
        return np.asarray(geom.times_group_element(D, jnp.asarray(a), p, g))

    def bad(fp, msg, **d):
        if len(v) < 6:
            v.append(viol(fp, msg, d=D, shape=list(sp), k=k, p=p, **d))

    def gclass(g):
        perm = tuple(int(np.argmax(np.abs(g[i]))) for i in range(D))
        cyc = "id" if perm == tuple(range(D)) else ("3cycle" if D == 3 and all(perm[i] != i for i in range(D)) else "swap")
        return cyc

    # ---- (i) formula on the identifier image, array entry point; (ii) identity; (v) norms; linearity
    table = {}
    for g in B:
        exp = ref_action(A0, p, g, D)
        got = lib_arr(A0, g)
        evals += 1
        table[G.gkey(g)] = got
        if got.shape != exp.shape or not np.array_equal(got, exp):
            bad(f"C02/formula/array/{gclass(g)}", f"geom.times_group_element != defining formula for g={g.tolist()} shape={sp} k={k} p={p}", g=g.tolist())
            continue
        if not np.array_equal(got, A0) or got.shape != A0.shape:
            moved = True
        # linearity on an integer combination
        comb = lib_arr(2 * A0 + 3 * A1, g)
        if not np.array_equal(comb, 2 * got + 3 * lib_arr(A1, g)):
            bad("C02/linearity/array", f"action not linear for g={g.tolist()}", g=g.tolist())
        # per-pixel Frobenius norm multiset
        n_in = np.sort((A0.astype(np.int64) ** 2).reshape(int(np.prod(sp)), -1).sum(1))
        n_out = np.sort((got.astype(np.int64) ** 2).reshape(int(np.prod(sp)), -1).sum(1))
        if not np.array_equal(n_in, n_out):
            bad("C02/norms", f"pixel norms not preserved for g={g.tolist()}", g=g.tolist())
    if not np.array_equal(table[G.gkey(e)], A0):
        bad("C02/identity", "identity does not act trivially")
    # integer-typed and half-precision data (identifier values are small: exactly representable)
    for dt in (np.int32, np.float16, np.uint8):
        for g in B[:: max(1, len(B) // 8)]:
            got = np.asarray(geom.times_group_element(D, jnp.asarray(A1.astype(dt)), p, g)).astype(np.float64)
            evals += 1
            if not np.array_equal(got, ref_action(A1, p, g, D).astype(np.float64)):
                bad(f"C02/dtype/{np.dtype(dt).name}", f"times_group_element on {np.dtype(dt).name} data != defining formula for g={g.tolist()}", g=g.tolist())
                break

    # ---- (vi)+(vii) GeometricImage entry point: all flags, metadata
    if not (D == 1 and k > 0):
        for fl in flagsets:
            im = geom.GeometricImage(jnp.asarray(A0), p, D, fl)
            for g in B:
                r = im.times_group_element(g)
                evals += 1
                exp = table[G.gkey(g)]
                if np.asarray(r.data).shape != exp.shape or not np.array_equal(np.asarray(r.data), exp):
                    bad(f"C02/entry/GeometricImage/{gclass(g)}", f"GeometricImage.times_group_element != array function for g={g.tolist()}", g=g.tolist())
                if (r.D, r.k, r.parity) != (D, k, p % 2):
                    bad("C02/meta/GeometricImage/type", f"(D,k,p) changed to {(r.D, r.k, r.parity)}")
                if tuple(r.spatial_dims) != rotated_dims(sp, g):
                    bad("C02/meta/GeometricImage/extents", f"extents {r.spatial_dims} != {rotated_dims(sp, g)} for g={g.tolist()}")
                if tuple(r.is_torus) != perm_axes(fl, g):
                    bad("C02/meta/GeometricImage/flags", f"flags {r.is_torus} != transported {perm_axes(fl, g)} for g={g.tolist()} flags={fl}", g=g.tolist(), flags=list(fl))

    # ---- MultiImage entry point: 0/1/2 leading axes with distinct sizes, a second type alongside,
    #      and the full one-hot basis on the channel axis (formula on a basis)
    k2, p2 = (0, 1 - p) if k != 0 else ((1, p) if D > 1 else (0, 1 - p))
    shape2 = sp + (D,) * k2
    n = int(np.prod(shape))
    basis = np.eye(n, dtype=np.float32).reshape((n,) + shape)
    for lead in ((), (2,), (3, 2), ("basis",)):
        if lead == ("basis",):
            blk = basis
            nlead = 1
        else:
            nlead = len(lead)
            mult = (np.arange(int(np.prod(lead)) if lead else 1, dtype=np.float32) + 1).reshape(lead + (1,) * len(shape))
            blk = mult * A0
        other = np.broadcast_to(ident(shape2, 500), blk.shape[:nlead] + shape2).copy()
        mixed = tuple(i % 2 == 0 for i in range(D))
        for fl in (flagsets if lead == (2,) else [mixed]):
            for order in ([(k, p), (k2, p2)], [(k2, p2), (k, p)])[: (1 if lead == (2,) else 2)]:
                blocks = {(k, p): blk, (k2, p2): other}
                mi = geom.MultiImage({kp: jnp.asarray(blocks[kp]) for kp in order}, D, fl)
                for g in B:
                    r = mi.times_group_element(g)
                    evals += 1
                    tag = "basis" if lead == ("basis",) else f"lead{nlead}"
                    for kp, src in blocks.items():
                        exp = ref_action(src, kp[1], g, D, lead=nlead)
                        got = np.asarray(r[kp]) if kp in r else None
                        if got is None or got.shape != exp.shape or not np.array_equal(got, exp):
                            bad(f"C02/entry/MultiImage/{tag}/{gclass(g)}", f"MultiImage.times_group_element block {kp} != defining formula for g={g.tolist()} lead={lead} order={order}", g=g.tolist(), lead=list(lead), order=order)
                            break
                    if list(r.keys()) != [tuple(o) for o in order] and set(r.keys()) != set(blocks):
                        bad("C02/meta/MultiImage/types", f"types changed: {list(r.keys())}")
                    if r.D != D or tuple(r.is_torus) != perm_axes(fl, g):
                        bad("C02/meta/MultiImage/flags", f"flags {r.is_torus} != transported {perm_axes(fl, g)} for g={g.tolist()} flags={fl}", g=g.tolist(), flags=list(fl))
                    if tuple(r.get_spatial_dims()) != rotated_dims(sp, g):
                        bad("C02/meta/MultiImage/extents", f"extents {r.get_spatial_dims()} != {rotated_dims(sp, g)}")
                if lead == ("basis",):
                    break  # one order suffices for the big basis block

    # ---- single-tensor entry point geom.tensor_times_gg: det(g)^p g^{(x)k} t for one pixel's tensor (the image with one
    #      pixel per axis is the reference)
    if all(n == 1 for n in sp) or (D > 1 and tuple(sp) == (1,) * (D - 1) + (2,)):
        t0 = ident((D,) * k, 3)
        for g in B:
            got = np.asarray(geom.tensor_times_gg(jnp.asarray(t0), p, np.array(g)))
            exp = ref_action(t0.reshape((1,) * D + t0.shape), p, g, D).reshape(t0.shape)
            evals += 1
            if got.shape != exp.shape or not np.array_equal(got, exp):
                bad(f"C02/entry/tensor_times_gg/{gclass(g)}", f"tensor_times_gg != det(g)^p g^(x)k t for g={g.tolist()}", g=g.tolist())
                break

    # ---- object history: a multi-image that has already been transformed (and asked for its extents) gets its blocks
    #      replaced in place (item assignment) by images of OTHER extents with the same pixel count; the action on the
    #      re-filled object must again be the defining formula for its current contents
    if D > 1 and tuple(sp) != tuple(sp[::-1]):
        sp_r = tuple(sp[::-1])
        mi = geom.MultiImage({(k, p): jnp.asarray(A0[None])}, D, (True,) * D)
        mi.get_spatial_dims()
        mi.times_group_element(B[-1])
        newblk = ident(sp_r + (D,) * k, 7)[None]
        mi[(k, p)] = jnp.asarray(newblk)
        for g in B:
            r = mi.times_group_element(g)
            evals += 1
            exp = ref_action(newblk, p, g, D, lead=1)
            got = np.asarray(r[(k, p)])
            if got.shape != exp.shape or not np.array_equal(got, exp) or tuple(r.get_spatial_dims()) != rotated_dims(sp_r, g):
                bad(f"C02/history/MultiImage/refilled/{gclass(g)}", f"after item assignment of blocks with extents {sp_r} to a multi-image that held extents {tuple(sp)}: times_group_element != defining formula for g={g.tolist()}", g=g.tolist())
                break

    # ---- (iii) (gh).A == g.(h.A) and (iv) inverse, computed entirely with the library
    left = B if case["pairs"] == "all" else _generators(D) + [g.T for g in _generators(D)]
    for h in B:
        hA = table[G.gkey(h)]
        back = lib_arr(hA, h.T)
        evals += 1
        if back.shape != A0.shape or not np.array_equal(back, A0):
            bad(f"C02/inverse/{gclass(h)}", f"g^-1.(g.A) != A for g={h.tolist()}", g=h.tolist())
        for g in left:
            lhs = table[G.gkey(g @ h)]
            rhs = lib_arr(hA, g)
            evals += 1
            if lhs.shape != rhs.shape or not np.array_equal(lhs, rhs):
                bad(f"C02/homomorphism/{gclass(g)}.{gclass(h)}", f"(gh).A != g.(h.A) for g={g.tolist()} h={h.tolist()}", g=g.tolist(), h=h.tolist())
    distinct_ext = len(set(sp)) == len(sp) and D > 1
    return {
        "violations": v,
        "nt": bool(moved),
        "evals": evals,
        "key": f"{D}/{sp}/{k}/{p}",
        "outcome": f"d{D}k{k}p{p}" + ("/distinct-extents" if distinct_ext else "") + ("/extent1" if 1 in sp else ""),
    }

CLAIM = {
    "text": "Bounded-exhaustive: every g in B_d and every ordered pair (g,h) on every spatial shape up to the bound, every k,p, all boundary-flag settings and all three entry points, compared exactly with the defining formula (independent numpy reference) on an identifier image and the full one-hot basis. Right level because the space is a small finite product and the action is linear, so equality on a basis is equality everywhere.",
    "note": "Trusted: numpy; the reference action (self-tested homomorphism); exactness of float32 on small integers. Bounds: d<=3, extents<=4/3, k<=3.",
    "technique": "explicit enumeration of all group elements / pairs x shapes x types x entry points on the real code against a reference model",
}
