"""C03 — generated invariant filters are invariant, independent and complete.

Every instance (G, d, M, k, p, scale) in the alphabet is decided exactly: every returned filter equals its image
under every g in G (independent reference action; entries are only permuted / sign-flipped so == is exact), the
family has full rank (exact modular elimination on the integer sign pattern), and its size equals the Burnside
dimension (1/|G|) sum_g fix(g) tr(g)^k det(g)^p computed in integers. The dict/list/MultiImage assemblers return
exactly those blocks; normalize / rectify rescale each member by a non-zero scalar only.
"""
import itertools as it

import numpy as np

from vlib.gj import viol
from vlib.ref import group as G
from vlib.ref.action import ref_action

ID = "C03"
LEVEL = "exploration"
DESIGN_REF = "DESIGN.md §4 C03"
RULE = (
    "one case per (group G, d, M, k, p); both scale modes inside. Groups: B_d, rotation part, C2^d, trivial, named "
    "cyclic/dihedral subgroups (quick) and every <=2-generated subgroup of B_d (thorough). evaluations = (filter, g) "
    "invariance identities + rank/count obligations. Non-trivial = |G|>1 and Burnside dimension >= 1; distinct = instance."
)
ASSUMPTIONS = [
    "no continuous quantifier: each instance decided in integer / exact float arithmetic",
    "L2: d in {2,3}; M<=5 (d=3: M<=3 quick, <=4 thorough with k<=1 at M=4); k<=4 (d=2), k<=2 (d=3)",
    "rank: filters with a single non-zero magnitude are reduced to their integer sign pattern and eliminated mod two primes (full rank mod p => full rank over Q); otherwise float64 SVD rank",
    "groups are passed as closed lists of signed permutation matrices (closure checked by the reference)",
]

P1, P2 = 2147483629, 2147483587


def _rank_mod(Mat, p):
    A = np.array(Mat, dtype=np.int64) % p
    r = 0
    rows, cols = A.shape
    for c in range(cols):
        piv = None
        for i in range(r, rows):
            if A[i, c] % p:
                piv = i
                break
        if piv is None:
            continue
        A[[r, piv]] = A[[piv, r]]
        inv = pow(int(A[r, c]), p - 2, p)
        A[r] = (A[r] * inv) % p
        for i in range(rows):
            if i != r and A[i, c]:
                A[i] = (A[i] - A[i, c] * A[r]) % p
        r += 1
        if r == rows:
            break
    return r


def groups_for(d, tier):
    named = G.named_groups(d)
    out = dict(named)
    if tier == "thorough":
        for i, grp in enumerate(G.subgroups_2gen(d)):
            key = tuple(G.gkey(g) for g in grp)
            if not any(tuple(G.gkey(g) for g in sorted(v, key=G.gkey)) == key for v in out.values()):
                out[f"sub{i}_{len(grp)}"] = grp
    return out


def bounds(tier):
    return {
        "d": [2, 3],
        "groups": {d: {n: len(g) for n, g in groups_for(d, tier).items()} if tier == "quick" else f"{len(groups_for(d, tier))} groups (all <=2-generated subgroups)" for d in (2, 3)},
        "M": {"2": [1, 2, 3, 4, 5], "3": [1, 2, 3] if tier == "quick" else [1, 2, 3, 4]},
        "k": {"2": [0, 1, 2, 3, 4], "3": [0, 1, 2]},
        "p": [0, 1],
        "scale": ["normalize", "one"],
        "call_histories": "every ordered pair (a,b) of an 11-instance menu run as a,b,a in one process from cleared caches",
    }


def cases(tier, seed):
    out = []
    for d in (2, 3):
        grps = groups_for(d, tier)
        for name, grp in grps.items():
            Ms = [1, 2, 3, 4, 5] if d == 2 else ([1, 2, 3] if tier == "quick" else [1, 2, 3, 4])
            ks = [0, 1, 2, 3, 4] if d == 2 else [0, 1, 2]
            for M in Ms:
                for k in ks:
                    if d == 3 and M >= 4 and k > 1:
                        continue
                    if len(grp) == 1 and M**d * d**k > (450 if d == 2 else 250):
                        continue  # trivial group: the family is the whole basis; keep it small
                    if tier == "quick" and d == 3 and name not in ("B", "SO", "C2^d", "triv") and (M > 3 or k > 1):
                        continue
                    for p in (0, 1):
                        size = M**d * d**k
                        out.append({"d": d, "G": name, "M": M, "k": k, "p": p, "cost": max(1, (size * size * len(grp)) // 40000), "grp": f"{d}/{M}/{k}"})
        # the assemblers
        out.append({"d": d, "assemble": True, "cost": 20})
    # call histories within ONE process (module-level caches): every ordered pair of a menu of small instances
    out.append({"d": 2, "history": True, "cost": 40})
    out.sort(key=lambda c: (c["d"], c.get("M", 0) ** c["d"] * c["d"] ** c.get("k", 0)))  # (history / assemble cases sort first)
    return out


def _assemble_case(case, tier="quick"):
    import ginjax.geometric as geom

    D = case["d"]
    ops = G.Bd(D)
    v = []
    Ms, ks, ps = [1, 3] if D == 2 else [3], [0, 1, 2] if D == 2 else [0, 1], [0, 1]
    fd, maxn = geom.get_invariant_filters_dict(Ms, ks, ps, D, ops)
    fl = geom.get_invariant_filters_list(Ms, ks, ps, D, ops)
    evals = 0
    flat = []
    for M in Ms:
        for k in ks:
            for p in ps:
                ind = geom.get_unique_invariant_filters(M, k, p, D, ops)
                got = fd.get((D, M, k, p))
                evals += 1
                if got is None or len(got) != len(ind) or any(not np.array_equal(np.asarray(a.data), np.asarray(b.data)) or a.parity != b.parity for a, b in zip(got, ind)):
                    v.append(viol("C03/assemble/dict", f"get_invariant_filters_dict block {(D, M, k, p)} != get_unique_invariant_filters", case=case))
                flat.extend(ind)
        if maxn.get((D, M)) != max(len(fd[(D, M, k, p)]) for k in ks for p in ps):
            v.append(viol("C03/assemble/maxn", "maxn is not the largest family size", case=case))
    if len(fl) != len(flat) or any(not np.array_equal(np.asarray(a.data), np.asarray(b.data)) or (a.k, a.parity) != (b.k, b.parity) for a, b in zip(fl, flat)):
        v.append(viol("C03/assemble/list", "get_invariant_filters_list is not the concatenation of the per-type families", case=case))
    for M in Ms:
        mi = geom.get_invariant_filters([M], ks, ps, D, ops)
        for k in ks:
            for p in ps:
                ind = fd[(D, M, k, p)]
                evals += 1
                if len(ind) == 0:
                    if (k, p) in mi:
                        v.append(viol("C03/assemble/multi", f"MultiImage has an empty-family block {(k, p)}", case=case))
                    continue
                blk = np.asarray(mi[(k, p)]) if (k, p) in mi else None
                exp = np.stack([np.asarray(f.data) for f in ind])
                if blk is None or blk.shape != exp.shape or not np.array_equal(blk, exp):
                    v.append(viol("C03/assemble/multi", f"get_invariant_filters block {(k, p)} for M={M} is not the family of that type", case=case))
    return {"violations": v[:5], "nt": True, "evals": evals, "outcome": f"assemble/d{D}"}


HISTORY_MENU = [
    # (D, M, k, p, group) — includes instances of equal basis size M^D*D^k (4: (1,2)/(2,0); 16: (2,2)/(4,0); 8 across d)
    (2, 1, 2, 0, "B"), (2, 2, 0, 0, "B"), (2, 2, 2, 0, "B"), (2, 4, 0, 0, "B"), (2, 2, 1, 0, "B"), (3, 2, 0, 0, "B"),
    # and the same (D,M,k,p) under different groups of equal order
    (2, 3, 1, 0, "C4"), (2, 3, 1, 0, "C2^d"), (2, 3, 0, 1, "flip0"), (2, 3, 0, 1, "swap"), (2, 3, 1, 1, "rot180"),
]


def _history_case(case):
    """Every ordered pair (a, b) of the menu is run as the call sequence a, b, a in one process, starting from
    cleared module-level caches; every call must return the invariant, complete family of ITS OWN instance."""
    import ginjax.geometric as geom
    import ginjax.geometric.common as common

    v = []
    evals = 0

    def check(inst, when):
        D, M, k, p, gname = inst
        grp = G.named_groups(D)[gname]
        fs = geom.get_unique_invariant_filters(M, k, p, D, [np.array(g) for g in grp])
        dim = G.burnside_dim(grp, M, k, p, D)
        if len(fs) != dim:
            return f"{when}: {len(fs)} filters for {inst}, dimension is {dim}"
        for f in fs:
            dat = np.asarray(f.data)
            if dat.shape != (M,) * D + (D,) * k:
                return f"{when}: filter of shape {dat.shape} for {inst}"
            for g in grp:
                if not np.array_equal(ref_action(dat, p, g, D), dat):
                    return f"{when}: a filter of {inst} is not invariant under its group"
        return None

    for a in HISTORY_MENU:
        for b in HISTORY_MENU:
            if a == b:
                continue
            for name in dir(common):
                obj = getattr(common, name)
                if isinstance(obj, dict) and "cache" in name.lower():
                    obj.clear()
            for inst, when in ((a, "first call"), (b, f"after {a}"), (a, f"after {a},{b}")):
                evals += 1
                msg = check(inst, when)
                if msg:
                    if len(v) < 5:
                        v.append(viol("C03/history/" + ("same-type-other-group" if a[:4] == b[:4] else "other-instance"), msg, case=case, history=[list(map(str, a)), list(map(str, b))]))
                    break
    # the assembling entry points under the same history discipline: groups of EQUAL ORDER (4: C4, C2^d; 2: flip0, swap,
    # rot180) asked for the same (D, M, k, p) one after the other in one process, each ordered pair as a, b, a
    def check_assembled(gname, when):
        grp = G.named_groups(2)[gname]
        ops = [np.array(g) for g in grp]
        fd, _ = geom.get_invariant_filters_dict([3], [0, 1], [0, 1], 2, ops)
        mi = geom.get_invariant_filters([3], [0, 1], [0, 1], 2, ops)
        fl = geom.get_invariant_filters_list([3], [0, 1], [0, 1], 2, ops)
        total = 0
        for k in (0, 1):
            for p in (0, 1):
                dim = G.burnside_dim(grp, 3, k, p, 2)
                total += dim
                fam = fd.get((2, 3, k, p), [])
                if len(fam) != dim:
                    return f"{when}: get_invariant_filters_dict gives {len(fam)} filters of type {(k, p)} for {gname}, dimension is {dim}"
                blk = np.asarray(mi[(k, p)]) if (k, p) in mi else np.zeros((0,))
                if (dim == 0) != ((k, p) not in mi) or (dim and blk.shape[0] != dim):
                    return f"{when}: get_invariant_filters block {(k, p)} for {gname} has {blk.shape[0] if dim else 'a'} filters, dimension is {dim}"
                for dat in [np.asarray(f.data) for f in fam] + ([b for b in blk] if dim else []):
                    for g in grp:
                        if not np.array_equal(ref_action(dat, p, g, 2), dat):
                            return f"{when}: an assembled filter of type {(k, p)} for {gname} is not invariant under {gname}"
        if len(fl) != total:
            return f"{when}: get_invariant_filters_list gives {len(fl)} filters for {gname}, expected {total}"
        return None

    same_order = ["C4", "C2^d", "flip0", "swap", "rot180"]
    for a in same_order:
        for b in same_order:
            if a == b:
                continue
            for name in dir(common):
                obj = getattr(common, name)
                if isinstance(obj, dict) and "cache" in name.lower():
                    obj.clear()
            for gname, when in ((a, "first call"), (b, f"after {a}"), (a, f"after {a},{b}")):
                evals += 1
                msg = check_assembled(gname, when)
                if msg:
                    if len(v) < 5:
                        v.append(viol("C03/history/assemblers", msg, case=case, history=[a, b]))
                    break
    return {"violations": v, "nt": True, "evals": evals, "outcome": "history"}


def run_case(case, seed):
    if case.get("history"):
        return _history_case(case)
    if case.get("assemble"):
        return _assemble_case(case)
    import ginjax.geometric as geom

    D, M, k, p = case["d"], case["M"], case["k"], case["p"]
    # the tier only affects which groups exist; look the group up in the larger menu
    grp = groups_for(D, "thorough" if case["G"].startswith("sub") else "quick")[case["G"]]
    assert G.is_group(grp)
    dim = G.burnside_dim(grp, M, k, p, D)
    v = []
    evals = 0

    def bad(fp, msg):
        if len(v) < 5:
            v.append(viol(fp, msg, case=case))

    fams = {}
    for scale in ("normalize", "one"):
        fs = geom.get_unique_invariant_filters(M, k, p, D, [np.array(g) for g in grp], scale)
        fams[scale] = fs
        datas = [np.asarray(f.data) for f in fs]
        # (a) declared metadata and shape
        for f, dat in zip(fs, datas):
            if dat.shape != (M,) * D + (D,) * k or (f.k, f.parity, f.D) != (k, p % 2, D):
                bad("C03/meta", f"filter has shape/type {dat.shape},{(f.k, f.parity)}")
        # (b) exact invariance under every g in G
        for i, dat in enumerate(datas):
            for g in grp:
                evals += 1
                if not np.array_equal(ref_action(dat, p, g, D), dat):
                    bad(f"C03/invariance/{scale}", f"filter {i} of (M={M},k={k},p={p}) is not fixed by g={np.array(g).tolist()}")
                    break
        # (c) size == dimension of the fixed subspace
        evals += 1
        if len(fs) != dim:
            bad(f"C03/count/{'too-few' if len(fs) < dim else 'too-many'}", f"{len(fs)} filters but the invariant subspace has dimension {dim} (|G|={len(grp)}, M={M}, k={k}, p={p}, scale={scale})")
        # (d) linear independence, exactly
        if fs:
            mat = np.stack([d_.ravel() for d_ in datas])
            single = all(len(np.unique(np.abs(r[r != 0]))) == 1 for r in mat if np.any(r != 0)) and all(np.any(r != 0) for r in mat)
            evals += 1
            if single:
                sign = np.sign(mat).astype(np.int64)
                rk = _rank_mod(sign, P1)
                if rk != len(fs):
                    rk = max(rk, _rank_mod(sign, P2))
            else:
                rk = int(np.linalg.matrix_rank(mat.astype(np.float64), tol=1e-9))
            if rk != len(fs):
                bad(f"C03/independence/{scale}", f"family of {len(fs)} filters has rank {rk}")
    # (e) normalize / rectify only rescale by a non-zero scalar
    for f in fams["one"]:
        base = np.asarray(f.data).astype(np.float64)
        for name, g_ in (("normalize", f.normalize()), ("rectify", f.rectify())):
            d2 = np.asarray(g_.data).astype(np.float64)
            nz = base != 0
            evals += 1
            if d2.shape != base.shape or np.any((d2 != 0) != nz) or (nz.any() and np.ptp(d2[nz] / base[nz]) > 1e-6):
                bad(f"C03/{name}", f"{name}() is not a non-zero scalar multiple of the filter")
    return {"violations": v, "nt": len(grp) > 1 and dim >= 1, "evals": evals, "outcome": f"d{D}/|G|={len(grp)}/dim>0={dim > 0}/k{k}p{p}"}


CLAIM = {
    "text": "Every instance (G,d,M,k,p,scale) in the alphabet is decided exactly: invariance of every returned filter under every g of G by the independent reference action (==), full rank by exact modular elimination, family size == Burnside dimension in integers; assemblers and rescalers checked against the per-type families.",
    "note": "Trusted: vlib/ref/group.py (closure, Burnside count; self-tested), vlib/ref/action.py. Bounds on M,k per d as recorded; groups are subgroups of B_d.",
    "technique": "exhaustive enumeration of (group, d, M, k, p) instances, each decided in exact arithmetic against a reference count",
}
