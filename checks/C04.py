"""C04 — convolution computes its mathematical definition in every mode.

Alphabet (default first): d, extents, batch, channels, (k,k'), filter extents, padding, torus flags, stride,
filter dilation, image dilation. Oracle: direct-sum reference (vlib/ref/conv.py) evaluated in int64 on the full
one-hot basis x basis table (image basis on the batch axis, filter basis on the out-channel axis) where the table
is small enough, else on small-integer data; exact ==. Plus the size formula, bilinearity on integer combinations,
convolve_contract == convolve followed by Kronecker contraction, convolve_ravel layout, GeometricImage.convolve_with.
"""
import numpy as np

from vlib import explore
from vlib.gj import viol, rng_for
from vlib.ref.conv import ref_conv, ref_conv_contract

ID = "C04"
LEVEL = "exploration"
DESIGN_REF = "DESIGN.md §4 C04"
RULE = (
    "cells of the option product enumerated simplest-first by number of deviations from the default (tested) cell; "
    "every enabled cell is executed on geom.convolve and compared exactly with the direct-sum reference on the full "
    "one-hot basis x basis table (or integer data when the table would exceed 3e6 entries). evaluations = number of "
    "(image, filter) pairs compared. Non-trivial = output non-empty and not identically zero; distinct = distinct cell."
)
ASSUMPTIONS = [
    "L2: d in {2,3}, extents <= 5, filter extents <= 4, k,k' <= 2 (d=3: k+k' <= 2), stride <= 2, filter dilation <= 3",
    "bilinearity is asserted on integer combinations; with it, equality on the basis table is equality for all real inputs",
    "float32 convolution of small integers is exact (|values| < 2^24 asserted)",
    "cells the library documents as unsupported (even filter side with TORUS/SAME/None padding) are disabled, not passed",
]

BASIS_CAP = 3_000_000
CENTRE2 = {"ext": [3, 5], "batch": 2, "chans": [2, 3], "kk": [2, 1], "fext": [3, 3], "pad": "SAME", "torus": [True, False], "stride": 2, "rhs": 2, "lhs": None}


def _dims(d):
    if d == 2:
        return {
            "ext": [[4, 4], [3, 5], [1, 4], [2, 5]],  # extents 1 and 2: smaller than the wrap reach of a dilated filter
            "batch": [1, 2],
            "chans": [[1, 1], [2, 3]],
            "kk": [[1, 1], [0, 0], [0, 1], [1, 0], [2, 1], [1, 2], [2, 0], [0, 2], [2, 2]],
            "fext": [[3, 3], [2, 2], [1, 3], [4, 4], [1, 1]],
            "pad": [None, "TORUS", "SAME", "VALID", 1, [[1, 2], [0, 1]]],
            "torus": [[True, True], [False, False], [True, False], [False, True]],
            "stride": [1, 2, [1, 2], 3],
            "rhs": [1, 2, [1, 2], 3, [3, 1]],
            "lhs": [None, [2, 2], [2, 1]],
        }
    return {
        "ext": [[3, 3, 3], [2, 3, 4]],
        "batch": [1, 2],
        "chans": [[1, 1], [2, 3]],
        "kk": [[0, 1], [0, 0], [1, 0], [1, 1], [2, 0], [0, 2]],
        "fext": [[3, 3, 3], [2, 2, 2], [1, 3, 2], [1, 1, 1]],
        "pad": [None, "TORUS", "SAME", "VALID", 1, [[1, 2], [0, 1], [2, 0]]],
        "torus": [[True, True, True], [False, False, False], [True, False, False], [False, True, True], [True, False, True]],
        "stride": [1, 2, [1, 2, 1]],
        "rhs": [1, 2, [1, 2, 1], 3],
        "lhs": [None, [2, 2, 2], [1, 2, 1]],
    }


def bounds(tier):
    return {
        "dims_d2": _dims(2),
        "dims_d3": _dims(3),
        "deviation_bound": {"quick": {"d2": 2, "d3": 2}, "thorough": {"d2": 4, "d3": 3}}[tier],
        "extra_full_products": "thorough: full product of (fext, pad, torus, stride, rhs, lhs) at kk in {(1,1),(0,0)} d=2, extents (4,4) and (3,5)" if tier == "thorough" else "none",
    }


def enabled(c):
    even = any(m % 2 == 0 for m in c["fext"])
    if even and c["pad"] in (None, "TORUS", "SAME"):
        return False
    return True


def cases(tier, seed):
    out = []
    plan = {"quick": {2: 2, 3: 2}, "thorough": {2: 4, 3: 3}}[tier]
    for d in (2, 3):
        for cell, dev in explore.cells(_dims(d), plan[d]):
            cell = dict(cell, d=d, dev=dev)
            out.append(cell)
    # second centre: every cell within 2 deviations of a non-default corner of the option space
    for cell, dev in explore.cells(explore.recentre(_dims(2), CENTRE2), 2):
        out.append(dict(cell, d=2, dev=dev + 10))
    if tier == "thorough":
        dims = _dims(2)
        sub = {k: dims[k] for k in ("fext", "pad", "torus", "stride", "rhs", "lhs")}
        for ext in dims["ext"][:2]:
            for kk in ([1, 1], [0, 0]):
                for cell in explore.product(sub):
                    out.append(dict(cell, d=2, ext=ext, batch=1, chans=[1, 1], kk=kk, dev=-1))
    out = explore.dedupe(out, lambda c: repr({k: v for k, v in c.items() if k != "dev"}))
    for c in out:
        c["grp"] = f"{c['d']}/{c['kk']}/{c['ext']}/{c['chans']}/{c['batch']}"
        c["cost"] = 3 if c["d"] == 3 else 1
    return out


def _t(x):
    if isinstance(x, list):
        return tuple(_t(v) for v in x)
    return x


def run_case(case, seed):
    if not enabled(case):
        return {"status": "disabled"}
    import jax.numpy as jnp
    import ginjax.geometric as geom

    D = case["d"]
    sp, M = tuple(case["ext"]), tuple(case["fext"])
    b, (ic, oc) = case["batch"], case["chans"]
    k, kf = case["kk"]
    pad, torus, stride, rhs, lhs = _t(case["pad"]), _t(case["torus"]), _t(case["stride"]), _t(case["rhs"]), _t(case["lhs"])
    v = []
    evals = 0
    rng = rng_for(0, "C04", repr(case))  # integer data: independent of VERIF_SEED on purpose (exact check)

    def lib(img, flt):
        return np.asarray(geom.convolve(D, jnp.asarray(img, dtype=jnp.float32), jnp.asarray(flt, dtype=jnp.float32), torus, stride, pad, lhs, rhs))

    def bad(fp, msg):
        if len(v) < 5:
            v.append(viol(fp, msg, case=case))

    padkind = "explicit" if isinstance(pad, tuple) else str(pad)
    tag = f"pad={padkind}/stride={'1' if stride == 1 else 'n'}/rhs={'1' if rhs == 1 else 'n'}/lhs={'none' if lhs is None else 'n'}"

    # ---- integer data (with the requested batch and channel counts)
    img = rng.integers(-3, 4, size=(b, ic) + sp + (D,) * k)
    flt = rng.integers(-3, 4, size=(oc, ic) + M + (D,) * kf)
    exp = ref_conv(D, img, flt, torus, stride, pad, lhs, rhs)
    got = lib(img, flt)
    evals += 1
    nontrivial = exp.size > 0 and bool(np.any(exp != 0))
    if got.shape != exp.shape:
        bad(f"C04/shape/{tag}", f"output shape {got.shape} != size formula {exp.shape}")
        return {"violations": v, "nt": nontrivial, "evals": evals}
    assert np.all(np.abs(exp) < 2**24)
    if not np.array_equal(got, exp):
        bad(f"C04/value/{tag}", f"convolve != direct sum (max abs diff {np.max(np.abs(got - exp))})")

    # ---- bilinearity on integer combinations
    img2 = rng.integers(-3, 4, size=img.shape)
    flt2 = rng.integers(-3, 4, size=flt.shape)
    if exp.size:
        if not np.array_equal(lib(2 * img + 3 * img2, flt), 2 * got + 3 * lib(img2, flt)):
            bad("C04/bilinear/image", "convolve is not linear in the image")
        if not np.array_equal(lib(img, 2 * flt + 3 * flt2), 2 * got + 3 * lib(img, flt2)):
            bad("C04/bilinear/filter", "convolve is not linear in the filter")
        evals += 4

    # ---- the full one-hot basis x basis table
    n_img = ic * int(np.prod(sp)) * D**k
    n_flt = ic * int(np.prod(M)) * D**kf
    table = n_img * n_flt * max(1, int(np.prod(exp.shape[2 : 2 + D]))) * D ** (k + kf)
    if 0 < table <= BASIS_CAP:
        Ib = np.eye(n_img, dtype=np.int64).reshape((n_img, ic) + sp + (D,) * k)
        Fb = np.eye(n_flt, dtype=np.int64).reshape((n_flt, ic) + M + (D,) * kf)
        e2 = ref_conv(D, Ib, Fb, torus, stride, pad, lhs, rhs)
        g2 = lib(Ib, Fb)
        evals += n_img * n_flt
        if g2.shape != e2.shape or not np.array_equal(g2, e2):
            bad(f"C04/basis/{tag}", "convolve != direct sum on the one-hot basis x basis table")
        nontrivial = nontrivial or bool(np.any(e2 != 0))

    # ---- fused convolve_contract == convolution followed by Kronecker contraction (needs k' >= k)
    if kf >= k:
        expc = ref_conv_contract(D, img, flt, torus, stride, pad, lhs, rhs)
        gotc = np.asarray(geom.convolve_contract(D, jnp.asarray(img, dtype=jnp.float32), jnp.asarray(flt, dtype=jnp.float32), torus, stride, pad, lhs, rhs))
        evals += 1
        if gotc.shape != expc.shape or not np.array_equal(gotc, expc):
            bad(f"C04/contract/k={k},kf={kf}", "convolve_contract != contraction of the convolution")
        # and against the library's own multicontract of its own convolve
        if k > 0 and exp.size:
            pairs = tuple((i, k + i) for i in range(k))
            viaself = np.asarray(geom.multicontract(jnp.asarray(got), pairs, 2 + D))
            if not np.array_equal(viaself, gotc):
                bad("C04/contract/self", "convolve_contract != multicontract(convolve)")

    # ---- convolve_ravel on its documented layout (scalars: plain multi-channel convolution)
    if k == 0 and kf == 0:
        ir = np.moveaxis(img, 1, -1)  # (b,spatial,in_c)
        fr = np.moveaxis(np.moveaxis(flt, 0, -1), 0, D)  # (spatial,in_c,out_c)
        gr = np.asarray(geom.convolve_ravel(D, jnp.asarray(ir, dtype=jnp.float32), jnp.asarray(fr, dtype=jnp.float32), torus, stride, pad, lhs, rhs))
        evals += 1
        if not np.array_equal(np.moveaxis(gr, -1, 1), exp):
            bad("C04/ravel", "convolve_ravel disagrees with the definition on its (batch,spatial,channel) layout")

    # ---- GeometricImage.convolve_with (single image / single filter, flags taken from the image)
    if b == 1 and ic == 1 and oc == 1:
        gi = geom.GeometricImage(jnp.asarray(img[0, 0], dtype=jnp.float32), 0, D, torus)
        gf = geom.GeometricImage(jnp.asarray(flt[0, 0], dtype=jnp.float32), 1, D, torus)
        r = gi.convolve_with(gf, stride, pad, lhs, rhs)
        evals += 1
        if np.asarray(r.data).shape != exp[0, 0].shape or not np.array_equal(np.asarray(r.data), exp[0, 0]):
            bad("C04/convolve_with", "GeometricImage.convolve_with != direct sum")
        if (r.k, r.parity, r.D) != (k + kf, 1, D):
            bad("C04/convolve_with/type", f"declared (k,p)={(r.k, r.parity)} expected {(k + kf, 1)}")

    return {
        "violations": v,
        "nt": bool(nontrivial),
        "evals": evals,
        "outcome": f"d{D}/{tag}/empty={exp.size == 0}",
    }


CLAIM = {
    "text": "Bounded-exhaustive over the option space: every enabled cell within the deviation bound (quick: 2 in d=2 and d=3; thorough: 4 / 3 plus full option products) is executed and compared exactly with an independent int64 direct-sum reference on the one-hot basis x basis table; bilinearity makes that equality for all real inputs. Size formula, fused contraction, ravel layout and the class entry point are compared in the same cells.",
    "note": "Trusted: numpy; vlib/ref/conv.py (self-tested against a literal loop nest); exact float32 on small integers. Cells beyond the deviation bound are not visited in the quick tier.",
    "technique": "deviation-bounded exhaustive enumeration of configuration cells against a reference model (basis x basis, exact)",
}
