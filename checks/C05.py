"""C05 — image algebra is type-sound: the declared (k, parity) is how results transform.

Programs: ALL well-typed expression trees up to a depth bound over the GeometricImage algebra
{+, -, scalar*, tensor product, transpose(all perms), contract(all pairs), multicontract(all disjoint pair sets,
both orders, both orientations), levi_civita_contract(all index tuples), norm, convolve_with(filter of every type)}
generated breadth-first over the typed signature (k,p), result order <= bound. Oracle for each term and EVERY g in
B_d:  eval(term)(g.leaves) == g._{declared (k,p)} eval(term)(leaves), integer leaves, exact == (1e-4 of the result's magnitude through norm);
declared type == type computed by the algebra rules; an exception on a well-typed term is a violation.
"""
import itertools as it

import numpy as np

from vlib.gj import viol, rng_for
from vlib.ref import group as G
from vlib.ref.action import ref_action, perm_axes

ID = "C05"
LEVEL = "exploration"
DESIGN_REF = "DESIGN.md §4 C05"
RULE = (
    "all well-typed terms up to the depth bound with result order <= K, generated breadth first from one integer leaf "
    "pair per type; cases bundle ~40 terms; every term is evaluated on the real GeometricImage API for every g in B_d "
    "and both boundary-flag settings. evaluations = (term, g) identities. Non-trivial term = result not identically "
    "zero and some g with det=-1 moves it; distinct = distinct term (counted)."
)
ASSUMPTIONS = [
    "L1 (mild): leaves are fixed small-integer images (two per type); the covariance defect of a term is polynomial (or norm-of-polynomial) in the leaves, so a violation somewhere is a violation almost everywhere; exact arithmetic except through norm (1e-4 relative to the magnitude)",
    "L2: d in {2,3}; leaf and result order <= 3 (d=2) / 2 (d=3); depth <= 2 quick (d=3: 1), 3 thorough (d=3: 2)",
    "typing rules used to generate terms: (k,p)+(k,p); (ka+kb, pa+pb) for products/convolutions; contract k-2; Levi-Civita k-D+2, p+1; norm (0,0)",
]

KMAX = {2: 3, 3: 2}
BUNDLE = 40


def bounds(tier):
    return {
        "d": [2, 3],
        "leaf_types": {"2": "k<=3, p in {0,1}", "3": "k<=2, p in {0,1}"},
        "depth": {"quick": {"2": 2, "3": 1}, "thorough": {"2": 3, "3": 2}}[tier],
        "operators": ["add", "sub", "smul", "mul", "transpose", "contract", "multicontract", "levi_civita_contract", "norm", "convolve_with"],
        "group": "all of B_d",
        "flags": ["all torus", "mixed"],
    }


# ----------------------------------------------------------------------------- typed term generation
def _type(term, D):
    """type of a term by the algebra rules (independent of the library)"""
    op = term[0]
    if op in ("leaf", "filt"):
        return (term[1], term[2])
    if op in ("add", "sub"):
        return _type(term[1], D)
    if op == "smul":
        return _type(term[1], D)
    if op == "mul":
        a, b = _type(term[1], D), _type(term[2], D)
        return (a[0] + b[0], (a[1] + b[1]) % 2)
    if op == "transpose":
        return _type(term[1], D)
    if op == "contract":
        a = _type(term[1], D)
        return (a[0] - 2, a[1])
    if op == "multicontract":
        a = _type(term[1], D)
        return (a[0] - 2 * len(term[2]), a[1])
    if op == "lc":
        a = _type(term[1], D)
        return (a[0] - D + 2, (a[1] + 1) % 2)
    if op == "norm":
        return (0, 0)
    if op == "conv":
        a, b = _type(term[1], D), _type(term[2], D)
        return (a[0] + b[0], (a[1] + b[1]) % 2)
    raise ValueError(op)


def _pairsets(k):
    """all non-empty sets of disjoint index pairs, as tuples of ordered pairs (one canonical representative)"""
    idx = list(range(k))
    out = []
    pairs = list(it.combinations(idx, 2))
    for r in range(1, k // 2 + 1):
        for ps in it.combinations(pairs, r):
            flat = [i for pq in ps for i in pq]
            if len(set(flat)) == len(flat):
                out.append(tuple(ps))
    return out


def _unary(term, D, full=True):
    k, p = _type(term, D)
    K = KMAX[D]
    out = [["smul", term, -3], ["norm", term]]
    if k >= 2:
        for perm in it.permutations(range(k)):
            if perm != tuple(range(k)):
                out.append(["transpose", term, list(perm)])
        for i, j in it.combinations(range(k), 2):
            out.append(["contract", term, i, j])
            if full:
                out.append(["contract", term, j, i])
        for ps in _pairsets(k):
            out.append(["multicontract", term, [list(q) for q in ps]])
            if full and len(ps) == 2:
                out.append(["multicontract", term, [list(ps[1]), list(ps[0])]])
                out.append(["multicontract", term, [list(ps[0][::-1]), list(ps[1])]])
    if k >= D - 1 and k - D + 2 <= K:
        for idxs in it.permutations(range(k), D - 1):
            out.append(["lc", term, list(idxs)])
    for kf in range(0, K - k + 1):
        for pf in (0, 1):
            out.append(["conv", term, ["filt", kf, pf, 0]])
    return out


def _binary(term, D):
    k, p = _type(term, D)
    K = KMAX[D]
    out = [["add", term, ["leaf", k, p, 1]], ["sub", ["leaf", k, p, 1], term]]
    for k2 in range(0, K - k + 1):
        for p2 in (0, 1):
            out.append(["mul", term, ["leaf", k2, p2, 1]])
            if k2 > 0 or term[0] != "leaf":
                out.append(["mul", ["leaf", k2, p2, 1], term])
    return out


def gen_terms(D, depth):
    K = KMAX[D]
    level = [["leaf", k, p, 0] for k in range(K + 1) for p in (0, 1)]
    allterms = []
    for dpt in range(1, depth + 1):
        nxt = []
        for t in level:
            nxt.extend(_unary(t, D, full=(dpt == 1)))
            nxt.extend(_binary(t, D))
        nxt = [t for t in nxt if 0 <= _type(t, D)[0] <= K]
        allterms.extend(nxt)
        level = nxt
    # term identities (contraction order / orientation, product commutativity up to transposition) are separate
    return allterms


def cases(tier, seed):
    out = []
    plan = {"quick": {2: 2, 3: 1}, "thorough": {2: 3, 3: 2}}[tier]
    for D in (2, 3):
        terms = gen_terms(D, plan[D])
        for i in range(0, len(terms), BUNDLE):
            out.append({"d": D, "terms": terms[i : i + BUNDLE], "cost": 6 if D == 3 else 1})
        out.append({"d": D, "identities": True, "cost": 10})
    return out


# ----------------------------------------------------------------------------- evaluation
def _leaf_data(D, sp, k, p, which, filt=False):
    rng = rng_for(0, "C05leaf", D, k, p, which, filt)
    shape = ((3,) * D if filt else sp) + (D,) * k
    return rng.integers(-2, 3, size=shape).astype(np.float32)


def _eval(term, env, geom):
    """env: dict with 'leaf'(k,p,which)->GeometricImage and 'filt'(k,p,which)->GeometricImage"""
    op = term[0]
    if op == "leaf":
        return env["leaf"][(term[1], term[2], term[3])]
    if op == "filt":
        return env["filt"][(term[1], term[2], term[3])]
    if op == "add":
        return _eval(term[1], env, geom) + _eval(term[2], env, geom)
    if op == "sub":
        return _eval(term[1], env, geom) - _eval(term[2], env, geom)
    if op == "smul":
        return _eval(term[1], env, geom) * term[2]
    if op == "mul":
        return _eval(term[1], env, geom) * _eval(term[2], env, geom)
    if op == "transpose":
        return _eval(term[1], env, geom).transpose(tuple(term[2]))
    if op == "contract":
        return _eval(term[1], env, geom).contract(term[2], term[3])
    if op == "multicontract":
        return _eval(term[1], env, geom).multicontract(tuple(tuple(q) for q in term[2]))
    if op == "lc":
        idx = tuple(term[2])
        return _eval(term[1], env, geom).levi_civita_contract(idx if len(idx) > 1 else idx[0])
    if op == "norm":
        return _eval(term[1], env, geom).norm()
    if op == "conv":
        return _eval(term[1], env, geom).convolve_with(_eval(term[2], env, geom))
    raise ValueError(op)


def _has(term, name):
    return term[0] == name or any(isinstance(t, list) and t and isinstance(t[0], str) and _has(t, name) for t in term[1:])


def _topop(term):
    return term[0]


def _make_env(D, sp, flags, g, geom, jnp):
    K = KMAX[D]
    env = {"leaf": {}, "filt": {}}
    fl = flags if g is None else perm_axes(flags, g)
    for k in range(K + 1):
        for p in (0, 1):
            for which in (0, 1):
                a = _leaf_data(D, sp, k, p, which)
                if g is not None:
                    a = ref_action(a, p, g, D)
                env["leaf"][(k, p, which)] = geom.GeometricImage(jnp.asarray(a), p, D, fl)
            f = _leaf_data(D, sp, k, p, 0, filt=True)
            if g is not None:
                f = ref_action(f, p, g, D)
            env["filt"][(k, p, 0)] = geom.GeometricImage(jnp.asarray(f), p, D, fl)
    return env


def run_case(case, seed):
    import jax.numpy as jnp
    import ginjax.geometric as geom

    D = case["d"]
    B = G.Bd(D)
    sp = (3, 4) if D == 2 else (3, 3, 2)
    v = []
    evals = 0
    nt_keys = []

    def bad(fp, msg, term=None):
        if len(v) < 6:
            v.append(viol(fp, msg, d=D, term=term))

    # integer / unsigned / boolean images are legal operands too; their Levi-Civita contraction must be right and must
    # not disturb later contractions in the same process (the symbol is a module-level cached table)
    for dt in (np.uint8, np.int32, np.bool_):
        raw = (_leaf_data(D, sp, D - 1, 0, 0) % 2).astype(dt)
        img = geom.GeometricImage(jnp.asarray(raw), 0, D, True)
        got = np.asarray(img.levi_civita_contract(tuple(range(D - 1)) if D > 2 else 0).data).astype(np.float64)
        ref = np.asarray(geom.GeometricImage(jnp.asarray(raw.astype(np.float32)), 0, D, True).levi_civita_contract(tuple(range(D - 1)) if D > 2 else 0).data).astype(np.float64)
        evals += 1
        if got.shape != ref.shape or not np.array_equal(got, ref):
            bad(f"C05/dtype/levi-civita/{np.dtype(dt).name}", f"levi_civita_contract of a {np.dtype(dt).name} image differs from the same values as float32")
    if case.get("identities"):
        env = _make_env(D, sp, (True,) * D, None, geom, jnp)
        K = KMAX[D]
        # contraction order / orientation independence on the largest order available via a product
        for k in range(2, K + 1):
            for p in (0, 1):
                a = env["leaf"][(k, p, 0)]
                for ps in _pairsets(k):
                    ref = np.asarray(a.multicontract(tuple(ps)).data)
                    for perm in it.permutations(ps):
                        for flips in it.product((0, 1), repeat=len(ps)):
                            q = tuple((pq[::-1] if f else pq) for pq, f in zip(perm, flips))
                            evals += 1
                            if not np.array_equal(np.asarray(a.multicontract(q).data), ref):
                                bad("C05/identity/contraction-order", f"multicontract{q} != multicontract{ps} on a k={k} image")
                    if len(ps) == 1:
                        if not np.array_equal(np.asarray(a.contract(*ps[0]).data), ref) or not np.array_equal(np.asarray(a.contract(*ps[0][::-1]).data), ref):
                            bad("C05/identity/contract-vs-multicontract", "contract(i,j) != multicontract(((i,j),))")
        # a (x) b == (b (x) a) with the index blocks exchanged
        for ka, kb in it.product(range(K + 1), repeat=2):
            if ka + kb > K:
                continue
            for pa, pb in it.product((0, 1), repeat=2):
                a, b = env["leaf"][(ka, pa, 0)], env["leaf"][(kb, pb, 1)]
                ab, ba = a * b, b * a
                evals += 1
                # number * image (reflected operator) == image * number, type unchanged
                ra, ar = 3 * a, a * 3
                if (ra.k, ra.parity, ra.D) != (a.k, a.parity, a.D) or not np.array_equal(np.asarray(ra.data), np.asarray(ar.data)) or not np.array_equal(np.asarray(ra.data), 3 * np.asarray(a.data)):
                    bad("C05/identity/scalar-multiple-reflected", f"3 * a != a * 3 (or its declared type changed) for type {(ka, pa)}")
                perm = tuple(range(kb, kb + ka)) + tuple(range(kb))
                if (ab.k, ab.parity) != (ba.k, ba.parity) or not np.array_equal(np.asarray(ab.data), np.asarray(ba.transpose(perm).data) if ka + kb >= 2 else np.asarray(ba.data)):
                    bad("C05/identity/product-commutativity", f"a(x)b != transpose(b(x)a) for types {(ka, pa)}, {(kb, pb)}")
                nt_keys.append(f"id/{D}/{ka}{pa}{kb}{pb}")
                # the array-level product geom.mul with leading (batch / channel) axes on either operand is the same
                # pixel-wise tensor product, entry by entry (offsets: number of leading axes of a and of b)
                da, db = np.asarray(a.data), np.asarray(b.data)
                ref = np.asarray(ab.data)
                for offs in ((0, 0), (1, 0), (2, 1), (1, 1), (2, 2)):
                    la = (3, 2)[2 - offs[0]:] if offs[0] else ()
                    lb = la[len(la) - offs[1]:] if offs[1] else ()
                    wa = (np.arange(int(np.prod(la))) + 1).reshape(la).astype(da.dtype) if la else np.ones((), da.dtype)
                    wb = (2 * np.arange(int(np.prod(lb))) + 1).reshape(lb).astype(db.dtype) if lb else np.ones((), db.dtype)
                    A = wa.reshape(la + (1,) * da.ndim) * da
                    Bm = wb.reshape(lb + (1,) * db.ndim) * db
                    got = np.asarray(geom.mul(D, jnp.asarray(A), jnp.asarray(Bm), offs[0], offs[1]))
                    wab = wa.reshape(la) * wb.reshape((1,) * (len(la) - len(lb)) + lb)
                    exp = wab.reshape(la + (1,) * ref.ndim) * ref
                    evals += 1
                    if got.shape != exp.shape or not np.array_equal(got, exp):
                        bad("C05/identity/mul-leading-axes", f"geom.mul with offsets {offs} != per-entry tensor product for types {(ka, pa)}, {(kb, pb)} (shape {got.shape} vs {exp.shape})")
        return {"violations": v, "nt_keys": nt_keys, "evals": evals, "outcome": "identities"}

    for flags in ((True,) * D, (True,) + (False,) * (D - 1)):
        env0 = _make_env(D, sp, flags, None, geom, jnp)
        envs = [(g, _make_env(D, sp, flags, g, geom, jnp)) for g in B]
        for term in case["terms"]:
            tkey = repr(term)
            exp_type = _type(term, D)
            try:
                r0 = _eval(term, env0, geom)
            except Exception as e:
                bad(f"C05/exception/{_topop(term)}", f"well-typed term raised {type(e).__name__}: {str(e)[:100]}", term)
                continue
            if (r0.k, r0.parity) != exp_type:
                bad(f"C05/declared-type/{_topop(term)}", f"declared (k,p)={(r0.k, r0.parity)} but the algebra gives {exp_type}", term)
            base = np.asarray(r0.data)
            tol = _has(term, "norm")
            moved = False
            failed = False
            for g, env in envs:
                try:
                    rg = _eval(term, env, geom)
                except Exception as e:
                    bad(f"C05/exception/{_topop(term)}", f"well-typed term raised {type(e).__name__} on transformed leaves: {str(e)[:100]}", term)
                    failed = True
                    break
                evals += 1
                exp = ref_action(base, r0.parity, g, D)  # transform with the DECLARED parity
                got = np.asarray(rg.data)
                # through `norm` values are irrational: compare relative to the magnitude of the result (float32
                # accumulation through nested convolutions reaches ~1e-6 of the scale; real defects are O(1))
                ok = got.shape == exp.shape and ((float(np.max(np.abs(got - exp))) <= 1e-4 * (1.0 + float(np.max(np.abs(exp)))) if exp.size else True) if tol else np.array_equal(got, exp))
                if not ok and not failed:
                    kind = "reflection" if G.det(g) < 0 else "rotation"
                    bad(f"C05/covariance/{_topop(term)}/{kind}", f"term does not transform with its declared type {(r0.k, r0.parity)} under g={g.tolist()} (flags {flags})", term)
                    failed = True
                if G.det(g) < 0 and not np.array_equal(exp, base):
                    moved = True
            if np.any(base != 0) and moved:
                nt_keys.append(tkey)
    return {"violations": v, "nt_keys": sorted(set(nt_keys)), "evals": evals, "outcome": f"d{D}/bundle"}


CLAIM = {
    "text": "All well-typed expression trees up to depth 2 (quick, d=2; depth 1 in d=3) / depth 3 (thorough; 2 in d=3) over the full operator alphabet are enumerated breadth first over the typed signature and evaluated on the real GeometricImage API for every g in B_d and two flag settings; declared type vs algebra rules and covariance with the declared type are compared exactly (1e-4 relative through norm). Contraction order/orientation and product commutativity as term identities.",
    "note": "L1: fixed integer leaves (two per type). Trusted: the typing rules written from the property statement; vlib/ref/action.py.",
    "technique": "breadth-first enumeration of all well-typed programs up to a size bound x all group elements, exact covariance oracle",
}
