"""C06 — the equivariant linear layer is equivariant for every parameter value.

Same cells as C11 (unit stride). The symmetry group is COMPUTED per cell: G = stabiliser in B_d of the supplied
filter bank (exact), restricted to the elements that leave the layer's per-axis options unchanged; for every g in G
layer(g.x) == g.layer(x) block by block at the declared type (independent reference action); every cyclic shift on
wrapped axes (TORUS padding, no image dilation). Parameters are set away from their initial values; the bias-free
core is bilinear and is compared exactly on integer data with {0,+-1} banks.
"""
import numpy as np

from checks import _convlayer as CL
from vlib.gj import viol, rng_for
from vlib.ref import group as G

ID = "C06"
INPUTS_MUST_BE_UNCHANGED = True  # runner post-condition: no call modifies the input object it is given
LEVEL = "exploration"
DESIGN_REF = "DESIGN.md §4 C06"
RULE = (
    "cells enumerated by deviations from the default cell; in every enabled cell EVERY g of the computed stabiliser "
    "and every cyclic shift on wrapped axes is executed on the real layer with integer parameters/inputs (exact ==, "
    "bias off) and with generic parameters/inputs including biases (tolerance 1e-4, confirmed on two further inputs). "
    "evaluations = (cell, g|shift, variant) identities. Non-trivial = |G|>1, output not zero, some g moves it; distinct = cell."
)
ASSUMPTIONS = [
    "the group is the exact stabiliser of the supplied bank (independent of C03) intersected with the stabiliser of the layer's per-axis options; nothing is claimed for g outside it",
    "bias-free core: bilinear in (weights, input); exact on integer data for {0,+-1} banks, bilinearity asserted on integer combinations",
    "L1: with biases and normalised banks, generic real parameters/inputs derived from VERIF_SEED, tolerance 1e-4 relative, a mismatch must repeat on two further independent draws to be reported",
    "L2: d in {2,3}; types k<=2 (d=3: k<=1); unit stride; deviation bound quick 2 (d=2 and d=3), thorough 3 (d=2 and d=3)",
]


def bounds(tier):
    return {"dims_d2": {k: (v if k != "sig" else f"{len(v)} signatures") for k, v in CL.dims(2, False).items()}, "dims_d3": {k: (v if k != "sig" else f"{len(v)} signatures") for k, v in CL.dims(3, False).items()}, "deviation_bound": {"quick": {"d2": 2, "d3": 2}, "thorough": {"d2": 3, "d3": 3}}[tier], "group": "computed stabiliser of the bank"}


def cases(tier, seed):
    plan = {"quick": {2: 2, 3: 2}, "thorough": {2: 3, 3: 3}}[tier]
    return CL.gen_cases(tier, plan, False)


def run_case(case, seed):
    if not CL.enabled(case):
        return {"status": "disabled"}
    import equinox as eqx
    from vlib import mlh
    from vlib.ref.action import perm_axes

    D = case["d"]
    sp = tuple(case["ext"])
    flags = tuple(case["flags"])
    v = []
    evals = 0
    unconfirmed = 0

    def bad(fp, msg, **d):
        if len(v) < 5:
            v.append(viol(fp, msg, case=case, **d))

    layer, bank_np, stab, in_sig, out_sig = CL.build(case)
    in_types = [tuple(kp) for kp, _ in in_sig]
    pad, rhs, lhs = CL._t(case["pad"]), CL._t(case["rhs"]), CL._t(case["lhs"])
    grp = mlh.options_stabiliser(stab, pad, rhs, lhs)
    resolved = pad if pad is not None else ("TORUS" if any(flags) else "SAME")
    rng = rng_for(seed, "C06", repr(sorted((k, str(v_)) for k, v_ in case.items())))
    moved = False
    nonzero = False

    def apply(lay, xb, fl):
        return mlh.np_blocks(lay(mlh.to_mi(xb, D, fl, order=in_types)))

    # ---- exact variant: integer weights and inputs, bias off (the bilinear core)
    core_layer = eqx.tree_at(lambda l: l.weights, CL.build(dict(case, bias=False))[0], mlh.set_convcontract_params(layer, rng, integer=True).weights)
    xi = mlh.make_input(in_sig, D, sp, rng, integer=True)
    xi2 = mlh.make_input(in_sig, D, sp, rng, integer=True)
    base = apply(core_layer, xi, flags)
    exact = all(np.all(f == np.round(f)) for f in bank_np.values())
    # bilinearity in the input on an integer combination
    comb = apply(core_layer, {kp: 2 * xi[kp] + 3 * xi2[kp] for kp in xi}, flags)
    b2 = apply(core_layer, xi2, flags)
    for t in base:
        if (exact and not np.array_equal(comb[t], 2 * base[t] + 3 * b2[t])) or (not exact and mlh.relerr(comb[t], 2 * base[t] + 3 * b2[t]) > 1e-5):
            bad("C06/linearity", f"bias-free layer is not linear in its input (block {t})")
    for g in grp:
        got = apply(core_layer, mlh.act_blocks(xi, g, D), perm_axes(flags, g))
        exp = mlh.act_blocks(base, g, D)
        evals += 1
        for t in exp:
            ok = t in got and got[t].shape == exp[t].shape and (np.array_equal(got[t], exp[t]) if exact else mlh.relerr(got[t], exp[t]) <= 1e-5)
            if not ok:
                bad(f"C06/core/{'reflection' if G.det(g) < 0 else 'rotation'}", f"bias-free layer(g.x) != g.layer(x) on block {t} for g={g.tolist()}", g=g.tolist())
                break
            if not np.array_equal(exp[t], base[t]):
                moved = True
            nonzero = nonzero or bool(np.any(base[t] != 0))
    if resolved == "TORUS" and lhs is None:
        for sh in mlh.shifts(sp, flags, D):
            got = apply(core_layer, {kp: np.roll(b, sh, axis=tuple(range(1, 1 + D))) for kp, b in xi.items()}, flags)
            evals += 1
            for t in base:
                exp = np.roll(base[t], sh, axis=tuple(range(1, 1 + D)))
                if got[t].shape != exp.shape or not (np.array_equal(got[t], exp) if exact else mlh.relerr(got[t], exp) <= 1e-5):
                    bad("C06/translation", f"layer(shift x) != shift layer(x) for shift {sh}")
                    break

    # ---- generic variant: all parameters (weights AND biases) away from initial values, the requested bias mode
    def generic_defect(r):
        lay = mlh.set_convcontract_params(layer, r, integer=False)
        xg = mlh.make_input(in_sig, D, sp, r, integer=False)
        b0 = apply(lay, xg, flags)
        worst = (0.0, None, None)
        for g in grp:
            got = apply(lay, mlh.act_blocks(xg, g, D), perm_axes(flags, g))
            exp = mlh.act_blocks(b0, g, D)
            for t in exp:
                e = mlh.relerr(got.get(t, np.zeros(0)), exp[t])
                if e > worst[0]:
                    worst = (e, g, t)
        if resolved == "TORUS" and lhs is None:
            for sh in list(mlh.shifts(sp, flags, D))[:: max(1, D)]:
                got = apply(lay, {kp: np.roll(b, sh, axis=tuple(range(1, 1 + D))) for kp, b in xg.items()}, flags)
                for t in b0:
                    e = mlh.relerr(got[t], np.roll(b0[t], sh, axis=tuple(range(1, 1 + D))))
                    if e > worst[0]:
                        worst = (e, "shift", t)
        return worst, len(grp)

    worst, n = generic_defect(rng)
    evals += n
    if worst[0] > 1e-4:
        again = [generic_defect(rng_for(seed, "C06confirm", i, repr(sorted((k, str(v_)) for k, v_ in case.items()))))[0] for i in range(2)]
        if all(a[0] > 1e-4 for a in again):
            t = worst[2]
            kind = "translation" if isinstance(worst[1], str) else ("reflection" if G.det(worst[1]) < 0 else "rotation")
            which = "scalar" if t == (0, 0) else ("pseudoscalar" if t == (0, 1) else "tensor")
            bad(f"C06/bias={case['bias']}/{which}/{kind}", f"layer(g.x) != g.layer(x) on block {t} with bias setting {case['bias']!r}: relative defect {worst[0]:.2e} (g={worst[1] if isinstance(worst[1], str) else worst[1].tolist()})")
        else:
            unconfirmed = 1
    res = {"violations": v, "nt": bool(moved and nonzero and len(grp) > 1), "evals": evals, "outcome": f"d{D}/{case['bank']}/|G|={len(grp)}/bias={case['bias']}"}
    if unconfirmed and not v:
        res["status"] = "unconfirmed"
    return res


CLAIM = {
    "text": "Every enabled cell within the deviation bound is run for every element of the computed stabiliser of its filter bank (and every cyclic shift on toroidal cells): exactly on integer parameters/inputs for the bilinear core, and with all parameters incl. biases perturbed on generic inputs (1e-4, confirm rule) for the five bias modes; output blocks are transformed with their declared type by an independent reference action.",
    "note": "L1 applies to the bias variants. Trusted: vlib/ref/action.py; the stabiliser computation (exact equality of permuted filter entries).",
    "technique": "deviation-bounded exhaustive enumeration of layer configurations x all elements of the computed symmetry group x all shifts",
}
