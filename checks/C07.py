"""C07 — equivariant networks are equivariant end to end.

Programs: every architecture cell within the deviation bound over (class x signature incl. pseudo types x depth x
blocks/downsamples x num_conv x activation x normalisation x pre-activation x bias mode x filter group x flags x
extent x parameter perturbation x d). For every g of the symmetry group of the model's filter banks (computed
stabiliser): model(g.x) == g.model(x) per output block at the requested type, decided at the output; a lock-step trace monitor over
EVERY intermediate layer output names the first diverging layer (and counts divergences that never reach the output). ResNets / conv blocks: every cyclic shift on toroidal inputs; U-Net:
every shift by a multiple of 2^downsamples, with the shift-by-one run as a negative control that must differ.
"""
import itertools as it

import numpy as np

from checks import _models as MD
from vlib import explore
from vlib.gj import viol, rng_for
from vlib.ref import group as G

ID = "C07"
INPUTS_MUST_BE_UNCHANGED = True  # runner post-condition: no call modifies the input object it is given
LEVEL = "exploration"
DESIGN_REF = "DESIGN.md §4 C07, §2.7"
RULE = (
    "architecture cells enumerated by deviations from the default (ResNet, sv signature, depth 2, 1 block, gelu, no "
    "norm, bias auto, B_d bank, torus, 4x4); each cell builds the real model, perturbs every parameter except the "
    "filter banks, and runs ALL g of the computed stabiliser and all admissible shifts; every intermediate layer "
    "output is compared in lock step. evaluations = (cell, g|shift) runs. Non-trivial = output non-zero, moved by "
    "some g (and for U-Nets the shift-by-one control differs); distinct = cell."
)
ASSUMPTIONS = [
    "L1: parameters and inputs are real: generic draws from VERIF_SEED, parameters perturbed by N(0, sigma^2) off initialisation; tolerance 2e-3 relative end to end (the same threshold locates the first diverging layer in the trace); a mismatch must repeat on two further inputs to be reported",
    "the group is the computed stabiliser of the model's filter banks (conv and upsample banks)",
    "U-Nets pool with norm max pooling: inputs are drawn until in every patch of every max-pool input the two largest pixel norms differ by > 1e-3 relative (the uniqueness premise stated in C08); a cell where 6 generic inputs all fail it (structurally tied norms, e.g. single-channel ReLU vector neuron with a negative weight: |v| ~ 2 eps/|w| at every pixel) is counted as disabled",
    "signatures are restricted to type sets that are stable under the bank (every mid type reachable); group norm only for k<=1 (the library's documented limit)",
    "L2: d=2 (quick: 2 cells in d=3; thorough: d=3 within 2 deviations); depth<=2, blocks<=2, downsamples<=2",
]

TOL = 2e-3
CENTRE2 = {"cls": "UNet", "sig": "svp", "norm": True, "flags": "mixed", "bias": "mean", "depth": 1}


def _dims(d):
    return {
        "cls": ["ResNet", "DilResNet", "UNet", "ConvBlock", "ConvBlockPre"],
        "sig": ["sv", "v", "svp", "pv", "vs-unsorted", "sp", "p"],
        "depth": [2, 1],
        "size": [1, 2],
        "num_conv": [1, 2],
        "act": ["gelu", "relu", "tanh"],
        "norm": [False, True],
        "preact": [False, True],
        "bias": ["auto", "mean", False, True, "scalar"],
        "bank": ["B", "C2"],
        "flags": ["torus", "open", "mixed"],
        "ext": [[4] * d, [4] * (d - 1) + [8], [6] * d],  # 6: smaller than the largest dilation (8) of the dilated ResNet
        "sigma": [0.3, 0.1],
    }


def bounds(tier):
    return {"dims": _dims(2), "deviation_bound": {"quick": "1 deviation + every class x every single deviation of the other dimensions in d=2; 2 cells in d=3", "thorough": "3 in d=2, 2 in d=3"}[tier], "group": "computed stabiliser of the filter banks", "shifts": "all cyclic shifts (UNet: multiples of 2^downsamples + shift-by-one negative control)"}


def _normalise(c):
    c = dict(c)
    if c["cls"] != "ResNet":
        c["preact"] = False
    if c["cls"] in ("ConvBlock", "ConvBlockPre"):
        c["size"], c["num_conv"], c["depth"] = 1, 1, 2
    if c["cls"] == "DilResNet":
        c["num_conv"] = 1
    return c


def cases(tier, seed):
    out = []
    d = 2
    dims = _dims(d)
    if tier == "quick":
        for cell, dev in explore.cells(dims, 1):
            out.append(dict(cell, d=d, dev=dev))
        base = {k: v[0] for k, v in dims.items()}
        for cls in dims["cls"]:
            for key in dims:  # every class x every single deviation of every other dimension
                if key == "cls":
                    continue
                for val in dims[key][1:]:
                    out.append(dict(base, d=d, cls=cls, dev=2 if cls != base["cls"] else 1, **{key: val}))
            out.append(dict(base, d=d, cls=cls, sig="svp", norm=True, dev=3))
        for cls in ("ResNet", "UNet"):
            out.append(dict({k: v[0] for k, v in _dims(3).items()}, d=3, cls=cls, dev=1))
        # second centre: U-Net, pseudo types, group norm, mixed flags, mean bias; every cell within 1 deviation of it
        for cell, dev in explore.cells(explore.recentre(dims, CENTRE2), 1):
            out.append(dict(cell, d=d, dev=dev + 10))
    else:
        for cell, dev in explore.cells(dims, 3):
            out.append(dict(cell, d=d, dev=dev))
        for cell, dev in explore.cells(_dims(3), 2):
            out.append(dict(cell, d=3, dev=dev + 1))
        for cell, dev in explore.cells(explore.recentre(dims, CENTRE2), 2):
            out.append(dict(cell, d=d, dev=dev + 10))
    # construction histories in ONE process: a scalar/vector model with normalisation built BEFORE a model with pseudo
    # types of the same width (and the reverse), for module-level caches keyed too coarsely
    base = {k: v[0] for k, v in dims.items()}
    for cls in ("ResNet", "UNet"):
        for first, second in (("sv", "svp"), ("svp", "sv"), ("s", "svp")):
            out.append(dict(base, d=2, cls=cls, norm=True, history=[first, second], sig=second, dev=20))
    out = [_normalise(c) for c in out]
    out = explore.dedupe(out, lambda c: repr(sorted(((k, v) for k, v in c.items() if k != "dev"), key=lambda kv: kv[0])))
    for c in out:
        c["cost"] = (3 if c["cls"] in ("DilResNet", "UNet") else 1) * (12 if c["d"] == 3 else 1)
        c["grp"] = f"{c['d']}/{c['bank']}/{c['cls']}"
    return out


def enabled(c):
    in_sig, out_sig = MD.SIGS2[c["sig"]]
    if c["norm"] and any(kp[0] > 1 for kp, _ in in_sig + out_sig):
        return False
    if c["cls"] == "UNet" and any(e % (2 ** c["size"]) for e in c["ext"]):
        return False  # the extent must be compatible with the architecture's pooling
    return True


def _flags(c):
    D = c["d"]
    return {"torus": (True,) * D, "open": (False,) * D, "mixed": (True,) + (False,) * (D - 1)}[c["flags"]]


def run_case(case, seed):
    if case.get("history"):
        res = None
        for sig in case["history"]:
            sub = {k: v for k, v in case.items() if k != "history"}
            sub["sig"] = sig
            res = run_case(sub, seed)
            if res.get("violations"):
                for x in res["violations"]:
                    x["fp"] = x["fp"].replace("C07/", "C07/history/", 1)
                    x["msg"] = f"after building {case['history']} in this order in one process: " + x["msg"]
                return res
        return res
    if not enabled(case):
        return {"status": "disabled"}
    from vlib import mlh
    from vlib.ref.action import perm_axes

    D = case["d"]
    sp = tuple(case["ext"])
    flags = _flags(case)
    ckey = repr(sorted((k, v) for k, v in case.items() if k not in ("dev", "cost", "grp")))
    rng = rng_for(seed, "C07", ckey)
    v = []
    try:
        model, in_sig, out_sig, grp = MD.build(case)
    except Exception as e:
        return {"status": "rejected", "note": f"constructor {type(e).__name__}: {str(e)[:80]}"}
    model = mlh.perturb_model(model, rng, case["sigma"])
    in_order = [tuple(kp) for kp, _ in in_sig]
    out_types = [tuple(kp) for kp, _ in out_sig]
    evals = 0

    def bad(fp, msg, **d):
        if len(v) < 4:
            v.append(viol(fp, msg, case=case, **d))

    pool_margin = [1.0]

    def forward(xb, fl):
        with mlh.Monitor() as mon:
            y = model(mlh.to_mi(xb, D, fl, order=in_order))
            y = y[0] if isinstance(y, tuple) else y
            trace = mon.take()
            pool_margin[0] = min(pool_margin[0], mon.take_pool_margin())
        return mlh.np_blocks(y), [(n, mlh.np_blocks(m)) for n, m in trace]

    def premise(xb):
        """uniqueness premise of norm max pooling (C08): in every patch of every max-pool input of this run the two
        largest pixel norms differ by more than 1e-3 relative; otherwise the arg-max is decided by rounding"""
        pool_margin[0] = 1.0
        forward(xb, flags)
        return pool_margin[0] > 1e-3

    is_unet = case["cls"] == "UNet"
    pool = 2 ** case["size"] if is_unet else 1

    def defect(xb):
        """returns (worst end-to-end, worst per-layer with location, moved, nonzero, control_differs)"""
        nonlocal evals
        y0, tr0 = forward(xb, flags)
        # e/g/t: worst END-TO-END defect (this decides); layer*: first diverging intermediate layer (names the culprit)
        worst = {"e": 0.0, "where": "output", "g": None, "t": None, "layer_e": 0.0, "layer": None}

        def upd(e, where, g, t):
            if where == "output":
                if e > worst["e"]:
                    worst.update(e=e, g=g, t=t)
            elif e > TOL and (worst["layer"] is None or int(where[4:].split(":")[0]) < int(worst["layer"][4:].split(":")[0])):
                worst.update(layer=where, layer_e=e)

        moved = nonzero = False
        for g in grp:
            yg, trg = forward(mlh.act_blocks(xb, g, D), perm_axes(flags, g))
            evals += 1
            exp = mlh.act_blocks(y0, g, D)
            for t in exp:
                upd(mlh.relerr(yg[t], exp[t]) if t in yg else np.inf, "output", g, t)
                if not np.array_equal(exp[t], y0[t]):
                    moved = True
                nonzero = nonzero or bool(np.any(y0[t] != 0))
            if len(trg) != len(tr0):
                continue
            for i, ((n0, b0), (n1, b1)) in enumerate(zip(tr0, trg)):
                e0 = mlh.act_blocks(b0, g, D)
                for t in e0:
                    upd(mlh.relerr(b1[t], e0[t]) if t in b1 else np.inf, f"step{i}:{n0}", g, t)
        ctrl = True
        if all(flags):
            allsh = list(mlh.shifts(sp, flags, D))
            use = [s_ for s_ in allsh if all(q % pool == 0 for q in s_)]
            for s_ in use:
                ys, _ = forward({kp: np.roll(b, s_, axis=tuple(range(1, 1 + D))) for kp, b in xb.items()}, flags)
                evals += 1
                for t in y0:
                    upd(mlh.relerr(ys[t], np.roll(y0[t], s_, axis=tuple(range(1, 1 + D)))), "output", ("shift", s_), t)
            if is_unet:
                one = (1,) + (0,) * (D - 1)
                ys, _ = forward({kp: np.roll(b, one, axis=tuple(range(1, 1 + D))) for kp, b in xb.items()}, flags)
                ctrl = any(mlh.relerr(ys[t], np.roll(y0[t], one, axis=tuple(range(1, 1 + D)))) > 10 * TOL for t in y0)
        return worst, moved, nonzero, ctrl, y0

    try:
        xb = None
        for _ in range(6):  # draw generic inputs until the max-pool uniqueness premise holds (U-Nets only)
            cand = mlh.make_input(in_sig, D, sp, rng, integer=False)
            if not is_unet or premise(cand):
                xb = cand
                break
        if xb is None:
            # structurally (nearly) tied pixel norms at a max pool, e.g. a single-channel ReLU vector neuron with a
            # negative weight leaves |v| ~ 2 eps/|w| at every pixel: outside the premise, counted, never a pass
            return {"status": "disabled", "note": "max-pool uniqueness premise fails on 6 generic inputs"}
        worst, moved, nonzero, ctrl, y0 = defect(xb)
    except NotImplementedError as e:
        return {"status": "rejected", "note": f"NotImplementedError: {str(e)[:80]}"}
    # requested output signature (types present, channels)
    for (t, c_) in out_sig:
        t = tuple(t)
        if t in y0 and y0[t].shape[0] != c_:
            bad("C07/output-channels", f"output block {t} has {y0[t].shape[0]} channels, requested {c_}")
    status = None
    if worst["e"] > TOL:
        confirmed = True
        for i in range(2):
            x2 = mlh.make_input(in_sig, D, sp, rng_for(seed, "C07confirm", i, ckey), integer=False)
            if is_unet and not premise(x2):
                confirmed = False
                break
            w2 = defect(x2)[0]
            if w2["e"] <= TOL:
                confirmed = False
                break
        if confirmed:
            g = worst["g"]
            kind = "translation" if isinstance(g, tuple) else ("reflection" if G.det(g) < 0 else "rotation")
            layer = (worst["layer"] or "output").split(":")[-1]
            t = worst["t"]
            tname = {(0, 0): "scalar", (0, 1): "pseudoscalar", (1, 0): "vector", (1, 1): "pseudovector"}.get(t, str(t))
            bad(f"C07/{case['cls']}/{layer}/{tname}/{kind}", f"{case['cls']}: model(g.x) != g.model(x) on output block {t}, relative defect {worst['e']:.2e}, witness {g if isinstance(g, tuple) else g.tolist()}; first diverging layer in the lock-step trace: {worst['layer']} ({worst['layer_e']:.2e})")
        else:
            status = "unconfirmed"
    nt = bool(moved and nonzero and ctrl and len(grp) > 1)
    internal_only = worst["layer"] is not None and worst["e"] <= TOL
    res = {"violations": v, "nt": nt, "evals": evals, "metric": worst["e"], "outcome": f"{case['cls']}/d{D}/|G|={len(grp)}/ctrl={ctrl}" + ("/internal-divergence-without-output-effect" if internal_only else "")}
    if status and not v:
        res["status"] = status
    return res


CLAIM = {
    "text": "Every architecture cell within the deviation bound builds the real U-Net / ResNet / dilated ResNet / conv block in equivariant mode, perturbs all parameters off initialisation and is run for every element of the computed symmetry group and every admissible shift; equivariance is decided at the output against an independent reference action; a lock-step trace monitor over every intermediate layer output names the first diverging layer of a violation.",
    "note": "L1 applies (real parameters/inputs: generic draws, 2e-3 tolerance, confirm rule). Quick tier: 1 deviation plus class x every other single deviation; thorough: 3 deviations (d=3: 2).",
    "technique": "deviation-bounded exhaustive enumeration of architectures x all group elements x all admissible shifts with a lock-step trace invariant",
}
