"""C08 — normalisation, nonlinearity and pooling blocks commute with the group action.

Blocks: GroupNorm / LayerNorm, VectorNeuronNonlinear (relu, gelu, tanh), MaxNormPool, geom.max_pool (norm and
comparator variants), average_pool (array / GeometricImage / MultiImage), GeometricImage.unpool. Every type the
block accepts incl. pseudo types, channels x every divisor as group count, eps default and 0, patch lengths, d in
{2,3}, non-square extents, EVERY g in B_d, every shift by a multiple of the patch for pools. Learnable parameters
are perturbed away from their initial values. Max pooling cells are enabled only if in every patch the top two
norms differ by > 1e-3 relative (the property's uniqueness premise), measured on the input.
"""
import itertools as it

import numpy as np

from vlib.gj import viol, rng_for
from vlib.ref import group as G

ID = "C08"
INPUTS_MUST_BE_UNCHANGED = True  # runner post-condition: no call modifies the input object it is given
LEVEL = "exploration"
DESIGN_REF = "DESIGN.md §4 C08"
RULE = (
    "one case per (block, configuration); inside a case every g in B_d (and every patch-multiple shift for pools) is "
    "executed on 3 generic inputs derived from VERIF_SEED plus the structured inputs that are well conditioned for "
    "the block (zero, constant, ramp; one-hot for scalars). evaluations = (input, g) identities. A numeric mismatch "
    "on a generic input must repeat on two further draws to be reported. Non-trivial = output non-zero and moved by some g."
)
ASSUMPTIONS = [
    "L1: parameters and inputs are real; discrete space exhausted, reals covered by generic draws + structured inputs; tolerance 1e-4 relative (pool/unpool on integer data: exact)",
    "max pooling only where the per-patch maximum norm is unique by a 1e-3 relative margin (premise of the property)",
    "norm layers: structured inputs restricted to zero/constant (and one-hot for scalars): near-singular covariances are outside the property's quantifier",
    "L2: d in {2,3}; channels<=6; patch<=3; k<=1 for norms, k<=2 otherwise",
]

TOL = 1e-4


def bounds(tier):
    return {
        "blocks": ["GroupNorm", "LayerNorm", "VectorNeuronNonlinear", "MaxNormPool", "geom.max_pool", "average_pool x3 entry points", "unpool"],
        "d": [2, 3],
        "norm_types": ["(0,0)", "(0,1)", "(1,0)", "(1,1)", "mixed"],
        "channels_groups": "c in {1,2,4,6}, groups = every divisor" if tier == "thorough" else "c in {1,2,4} (d=3: 2), groups = every divisor",
        "eps": ["default 1e-5", 0],
        "vn_types": "k<=2 both parities; activations relu/gelu/tanh",
        "patch": [2, 3],
        "group": "all of B_d",
    }


def cases(tier, seed):
    out = []
    for d in (2, 3):
        exts = [[4, 4], [2, 6]] if d == 2 else [[2, 2, 2], [2, 4, 2]]
        chans = ([1, 2, 4, 6] if tier == "thorough" else [1, 2, 4]) if d == 2 else ([2, 4] if tier == "thorough" else [2])
        for sig in ("00", "01", "10", "11", "mixed", "mixed-s-first"):
            for c in chans:
                for groups in [g_ for g_ in range(1, c + 1) if c % g_ == 0]:
                    for eps in ("default", 0):
                        for ext in exts[: (2 if (tier == "thorough" or (c == 2 and eps == "default")) else 1)]:
                            out.append({"block": "GroupNorm", "d": d, "sig": sig, "c": c, "groups": groups, "eps": eps, "ext": ext, "cost": 6 if d == 3 else 1})
            out.append({"block": "LayerNorm", "d": d, "sig": sig, "c": 2, "ext": exts[1], "cost": 6 if d == 3 else 1})
        for act in ("relu", "gelu", "tanh"):
            for sig in ("00", "01", "10", "11", "20", "21", "mixed2"):
                for c in ([1, 3] if d == 2 else [2]):
                    out.append({"block": "VN", "d": d, "sig": sig, "c": c, "act": act, "ext": exts[1], "cost": 6 if d == 3 else 1})
        for patch in (2, 3):
            pext = [[2 * patch, 2 * patch], [patch, 2 * patch]] if d == 2 else [[patch, patch, 2 * patch]]
            for ext in pext:
                for sig in ("00", "01", "10", "11", "20", "mixed2"):
                    out.append({"block": "MaxNormPool", "d": d, "sig": sig, "c": 2, "patch": patch, "ext": ext, "cost": 6 if d == 3 else 1})
                # call history in one process: the plain-max variant (use_norm=False, what a conventional U-Net builds) is
                # used on scalar channels FIRST, then the default norm-based layer of the same patch length on pseudo types
                out.append({"block": "MaxNormPool", "d": d, "sig": "01", "c": 2, "patch": patch, "ext": ext, "after_plain": True, "cost": 6 if d == 3 else 1})
                out.append({"block": "MaxNormPool", "d": d, "sig": "mixed2", "c": 2, "patch": patch, "ext": ext, "after_plain": True, "cost": 6 if d == 3 else 1})
                for k in (0, 1, 2):
                    for variant in ("norm", "comparator", "plain"):
                        if variant == "plain" and k > 0:
                            continue
                        out.append({"block": "max_pool", "d": d, "k": k, "variant": variant, "patch": patch, "ext": ext, "cost": 4 if d == 3 else 1})
                    out.append({"block": "avgpool", "d": d, "k": k, "patch": patch, "ext": ext, "cost": 4 if d == 3 else 1})
                    out.append({"block": "unpool", "d": d, "k": k, "patch": patch, "ext": [e // patch + 1 for e in ext], "cost": 4 if d == 3 else 1})
    return out


def _sig(name, c):
    m = {"00": [((0, 0), c)], "01": [((0, 1), c)], "10": [((1, 0), c)], "11": [((1, 1), c)], "20": [((2, 0), c)], "21": [((2, 1), c)]}
    if name in m:
        return m[name]
    if name == "mixed":
        return [((1, 0), c), ((0, 1), c), ((0, 0), c), ((1, 1), c)]
    if name == "mixed-s-first":
        return [((0, 0), c), ((0, 1), c), ((1, 0), c)]
    return [((2, 0), c), ((0, 1), c), ((1, 1), c), ((0, 0), c)]


def _inputs(sig, D, sp, rng, structured):
    from vlib import mlh

    xs = [("generic", mlh.make_input(sig, D, sp, rng, integer=False)) for _ in range(3)]
    for name in structured:
        if name.startswith("amp"):
            # generic input of small amplitude: the stabilising eps is then comparable to the statistics it regularises
            a = float(name[3:])
            xs.append(("generic", {kp: (a * b).astype(np.float32) for kp, b in mlh.make_input(sig, D, sp, rng, integer=False).items()}))
            continue
        blocks = {}
        for kp, c in sig:
            shape = (c,) + tuple(sp) + (D,) * kp[0]
            if name == "zero":
                b = np.zeros(shape, dtype=np.float32)
            elif name == "constant":
                b = np.broadcast_to(np.arange(1, int(np.prod(shape[1 + D :])) + 1, dtype=np.float32).reshape((1,) * (1 + D) + shape[1 + D :]) * 0.5, shape).copy()
            elif name == "ramp":
                b = (np.arange(int(np.prod(shape)), dtype=np.float32).reshape(shape) * 0.37 + 0.11) % 5.0 - 1.7
            else:  # one-hot
                b = np.zeros(shape, dtype=np.float32)
                b.reshape(-1)[int(np.prod(shape)) // 3] = 1.0
            blocks[kp] = b.astype(np.float32)
        xs.append((name, blocks))
    return xs


def _unique_max(blocks, D, patch):
    """premise of max pooling: in every patch the top two pixel norms differ by > 1e-3 relative"""
    for kp, b in blocks.items():
        c = b.shape[0]
        sp = b.shape[1 : 1 + D]
        n = np.sqrt((b.astype(np.float64) ** 2).reshape((c,) + sp + (-1,)).sum(-1))
        sh = (c,)
        for s in sp:
            sh += (s // patch, patch)
        n = n.reshape(sh)
        n = np.moveaxis(n, [2 + 2 * i for i in range(D)], list(range(-D, 0))).reshape((c,) + tuple(s // patch for s in sp) + (-1,))
        top = np.sort(n, axis=-1)[..., -2:]
        if np.any(top[..., 1] - top[..., 0] <= 1e-3 * (1e-6 + top[..., 1])):
            return False
    return True


def run_case(case, seed):
    import jax
    import jax.numpy as jnp
    import jax.random as random
    import ginjax.geometric as geom
    import ginjax.ml as ml
    from vlib import mlh

    D = case["d"]
    sp = tuple(case["ext"])
    B = G.Bd(D)
    flags = (True,) + (False,) * (D - 1)
    rng = rng_for(seed, "C08", repr(sorted((k, str(v_)) for k, v_ in case.items())))
    v = []
    evals = 0
    unconf = 0
    moved_any = False
    blk = case["block"]

    def bad(fp, msg, **d):
        if len(v) < 5:
            v.append(viol(fp, msg, case=case, **d))

    def typename(t):
        return {(0, 0): "scalar", (0, 1): "pseudoscalar", (1, 0): "vector", (1, 1): "pseudovector"}.get(t, f"k{t[0]}p{t[1]}")

    def run_layer(layer, sig, structured, shifts_list=(), premise=None, exact=False, fpbase=""):
        nonlocal evals, unconf, moved_any
        order = [tuple(kp) for kp, _ in sig]
        apply = lambda xb, fl: mlh.np_blocks(layer(mlh.to_mi(xb, D, fl, order=order)))
        for name, xb in _inputs(sig, D, sp, rng, structured):
            if premise is not None and not premise(xb):
                continue
            worst, moved, nonzero = mlh.equivariance_defect(apply, xb, B, D, flags, shifts_list=shifts_list)
            evals += len(B) + len(shifts_list)
            moved_any = moved_any or (moved and nonzero)
            if worst[0] > TOL:
                confirmed = True
                if name == "generic":
                    for i in range(2):
                        r2 = rng_for(seed, "C08confirm", i, repr(sorted((k, str(v_)) for k, v_ in case.items())))
                        x2 = mlh.make_input(sig, D, sp, r2, integer=False)
                        if premise is not None and not premise(x2):
                            confirmed = False
                            break
                        w2, _, _ = mlh.equivariance_defect(apply, x2, B, D, flags, shifts_list=shifts_list)
                        if w2[0] <= TOL:
                            confirmed = False
                            break
                if confirmed:
                    wit = worst[1]
                    kind = "translation" if isinstance(wit, tuple) else ("reflection" if G.det(wit) < 0 else "rotation")
                    bad(f"C08/{fpbase}/{typename(worst[2])}/{kind}", f"{blk}: block(g.x) != g.block(x) on {worst[2]} (input {name}), relative defect {worst[0]:.2e}, witness {wit if isinstance(wit, tuple) else wit.tolist()}")
                    return
                unconf += 1

    if blk in ("GroupNorm", "LayerNorm"):
        sig = _sig(case["sig"], case["c"])
        eps = 1e-5 if case.get("eps", "default") == "default" else 0.0
        if blk == "GroupNorm":
            layer = ml.GroupNorm(mlh.sig_tuple(sig), D, case["groups"], eps)
        else:
            layer = ml.LayerNorm(mlh.sig_tuple(sig), D)
        layer = mlh.perturb_model(layer, rng, 0.4)
        structured = ["zero", "constant", "onehot", "amp1e-2", "amp1e-3"] if eps > 0 else ["amp1e-2"]
        run_layer(layer, sig, structured, fpbase=f"norm/groups={'1' if case.get('groups', 1) == 1 else 'n'}")
    elif blk == "VN":
        sig = _sig(case["sig"], case["c"])
        layer = ml.VectorNeuronNonlinear(mlh.sig_tuple(sig), D, {"relu": jax.nn.relu, "gelu": jax.nn.gelu, "tanh": jax.nn.tanh}[case["act"]], key=random.PRNGKey(3))
        layer = mlh.perturb_model(layer, rng, 0.3)
        run_layer(layer, sig, ["zero", "constant", "ramp", "onehot"], fpbase=f"vn/{case['act']}")
    elif blk == "MaxNormPool":
        sig = _sig(case["sig"], case["c"])
        p_ = case["patch"]
        if case.get("after_plain"):
            plain = ml.MaxNormPool(p_, use_norm=False)
            xs0 = mlh.make_input([((0, 0), 2)], D, sp, rng, integer=False)
            y0 = mlh.np_blocks(plain(mlh.to_mi(xs0, D, flags)))[(0, 0)]
            blocks0 = xs0[(0, 0)].reshape((2,) + tuple(q for s_ in sp for q in (s_ // p_, p_)))
            exp0 = blocks0.max(axis=tuple(2 + 2 * i for i in range(D)))
            evals += 1
            if y0.shape != exp0.shape or not np.array_equal(y0, exp0):
                bad("C08/maxnormpool/plain-max-of-scalars", "MaxNormPool(use_norm=False) on scalar channels is not the per-patch maximum")
        layer = ml.MaxNormPool(p_)
        sh = [(tuple(p_ * a for a in m), m) for m in it.product(*[range(s // p_) for s in sp]) if any(m)]
        run_layer(layer, sig, ["ramp"], shifts_list=sh, premise=lambda xb: _unique_max(xb, D, p_), fpbase="maxnormpool")
    else:
        # array / class level pooling on a single image; integer data for the linear pools (exact)
        k, p_ = case["k"], case["patch"]
        shape = sp + (D,) * k
        for par in (0, 1):

            def declared(img, par=par):
                """class-level entry points: the result must DECLARE the operand's type (k, parity), D and carry its data"""
                if (img.k, img.parity, img.D) != (k, par, D):
                    bad(f"C08/{blk}/declared-type", f"{blk} of a (k={k}, parity={par}) image declares (k,p)={(img.k, img.parity)}")
                return np.asarray(img.data)

            for trial in range(3):
                if blk == "max_pool":
                    a = rng.normal(size=shape).astype(np.float32)
                    comp = rng.normal(size=sp).astype(np.float32)
                    if case["variant"] == "norm":
                        if not _unique_max({(k, par): a[None]}, D, p_):
                            continue
                        f = lambda arr, cmp_, fl: np.asarray(geom.max_pool(D, jnp.asarray(arr), p_, True))
                    elif case["variant"] == "comparator":
                        f = lambda arr, cmp_, fl: np.asarray(geom.max_pool(D, jnp.asarray(arr), p_, False, jnp.asarray(cmp_)))
                    else:
                        f = lambda arr, cmp_, fl: declared(geom.GeometricImage(jnp.asarray(arr), par, D, fl).max_pool(p_, use_norm=False))
                        if par == 1:
                            continue  # plain max of a pseudoscalar is not reflection-equivariant (max != -min): outside the property
                    tol = 1e-6
                elif blk == "avgpool":
                    a = rng.integers(-4, 5, size=shape).astype(np.float32) * (2.0**D if p_ == 2 else 1.0)
                    comp = None
                    entry = trial
                    if entry == 0:
                        f = lambda arr, cmp_, fl: np.asarray(geom.average_pool(D, jnp.asarray(arr), p_))
                    elif entry == 1:
                        f = lambda arr, cmp_, fl: declared(geom.GeometricImage(jnp.asarray(arr), par, D, fl).average_pool(p_))
                    else:
                        f = lambda arr, cmp_, fl: np.asarray(geom.MultiImage({(k, par): jnp.asarray(arr)[None, None]}, D, fl).average_pool(p_)[(k, par)])[0, 0]
                    tol = 0.0 if p_ == 2 else 1e-6
                else:  # unpool
                    a = rng.integers(-4, 5, size=shape).astype(np.float32)
                    comp = None
                    f = lambda arr, cmp_, fl: declared(geom.GeometricImage(jnp.asarray(arr), par, D, fl).unpool(p_))
                    tol = 0.0
                from vlib.ref.action import ref_action, perm_axes

                base = f(a, comp, flags)
                for g in B:
                    got = f(ref_action(a, par, g, D), None if comp is None else ref_action(comp, 0, g, D), perm_axes(flags, g))
                    exp = ref_action(base, par, g, D)
                    evals += 1
                    ok = got.shape == exp.shape and (np.array_equal(got, exp) if tol == 0.0 else mlh.relerr(got, exp) <= max(tol, 1e-6))
                    if not ok:
                        bad(f"C08/{blk}/{case.get('variant', '')}/{'reflection' if G.det(g) < 0 else 'rotation'}", f"{blk}(g.x) != g.{blk}(x) for g={g.tolist()} k={k} parity={par}")
                        break
                    if not np.array_equal(exp, base):
                        moved_any = moved_any or bool(np.any(base != 0))
                # translations by multiples of the patch (pool: shift p*m in, m out; unpool: m in, p*m out)
                if blk != "unpool":
                    ms = [m for m in it.product(*[range(s // p_) for s in sp]) if any(m)]
                    pairs = [(tuple(p_ * q for q in m), m) for m in ms]
                else:
                    ms = [m for m in it.product(*[range(min(s, 2)) for s in sp]) if any(m)]
                    pairs = [(m, tuple(p_ * q for q in m)) for m in ms]
                for sin, sout in pairs:
                    got = f(np.roll(a, sin, axis=tuple(range(D))), None if comp is None else np.roll(comp, sin, axis=tuple(range(D))), flags)
                    exp = np.roll(base, sout, axis=tuple(range(D)))
                    evals += 1
                    if got.shape != exp.shape or not (np.array_equal(got, exp) if tol == 0.0 else mlh.relerr(got, exp) <= max(tol, 1e-6)):
                        bad(f"C08/{blk}/{case.get('variant', '')}/translation", f"{blk} does not commute with the shift {sin}")
                        break
    res = {"violations": v, "nt": bool(moved_any), "evals": evals, "outcome": f"{blk}/d{D}/{case.get('sig', case.get('k'))}"}
    if unconf and not v:
        res["status"] = "unconfirmed"
    return res


CLAIM = {
    "text": "Every block configuration in the alphabet (norm layers over all accepted types incl. pseudo types, channels x all group counts, eps default and 0; vector-neuron nonlinearity over k<=2 and three activations; norm max pooling under the uniqueness premise; average pooling through three entry points; unpooling) is run for every g in B_d and every patch-multiple shift, with parameters perturbed off their initial values, against an independent reference action.",
    "note": "L1: real inputs are generic draws (VERIF_SEED) + structured inputs; 1e-4 tolerance with a confirm rule; integer data exact for the linear pools.",
    "technique": "exhaustive enumeration of block configurations x all group elements x all admissible shifts on the real code",
}
