"""C09 — training cannot break equivariance.

Histories: for each (model, optimiser) the tree of ALL mini-batch sequences over a 2-letter batch alphabet up to a
length bound is driven through the real train_step (JAX values are immutable, so every node of the tree is kept,
not replayed); plus full ml.train runs. Invariant in EVERY state of the tree: (i) every invariant filter bank
equals c * original for one scalar c > 0; (ii) the model's static structure is unchanged; (iii) the current model
is equivariant for every g of the bank's stabiliser (decided at the output; the trace monitor names the first diverging layer);
(iv) the parameters did move.
"""
import itertools as it

import numpy as np

from checks import _models as MD
from vlib.gj import viol, rng_for
from vlib.ref import group as G

ID = "C09"
INPUTS_MUST_BE_UNCHANGED = True  # runner post-condition: no call modifies the input object it is given
LEVEL = "model_checking"
DESIGN_REF = "DESIGN.md §4 C09"
RULE = (
    "one case per (model, optimiser, signature); the tree of all batch sequences over {b1,b2} up to the depth bound "
    "is explored through the real train_step; the four-part invariant is evaluated in every node. states = tree "
    "nodes (trained models), transitions = train_step calls, traces = leaves (complete histories) + ml.train runs. "
    "Non-trivial = parameters moved by > 1e-4 and the output is moved by some g; distinct = case."
)
ASSUMPTIONS = [
    "L1: real parameters/data; generic data from VERIF_SEED; equivariance tolerance 2e-3 with confirm on two further inputs",
    "optimisers: optax sgd(0.05), adam(0.02), adamw(0.02, weight_decay=0.1); sequences of length <= 3 (quick) / 4 (thorough) over two fixed mini-batches of different content; batch size 2; one device (L4)",
    "U-Net states: a mismatch is only a verdict if the max-pool uniqueness premise (top two pixel norms of every pooled patch differ by > 1e-3 relative) holds on the probe input",
    "an optimiser or loss crash is reported as a disabled transition, not a violation (the property speaks of the returned model)",
]

TOL = 2e-3
MODELS = {
    "ConvContract": {"cls": "ConvBlock", "act": None, "norm": False, "sig": "svp"},
    "ConvBlock+norm": {"cls": "ConvBlock", "act": "gelu", "norm": True, "sig": "svp"},
    "ResNet+norm": {"cls": "ResNet", "act": "gelu", "norm": True, "sig": "svp", "depth": 1, "size": 1, "num_conv": 1, "preact": True},
    "ResNet-pv": {"cls": "ResNet", "act": "relu", "norm": True, "sig": "pv", "depth": 1, "size": 1, "num_conv": 1},
    "UNet": {"cls": "UNet", "act": "gelu", "norm": True, "sig": "sv", "depth": 1, "size": 1, "num_conv": 1},
    "DilResNet": {"cls": "DilResNet", "act": "gelu", "norm": False, "sig": "sv", "depth": 1, "size": 1},
    # a user-written module around the library layer that calls its public pairwise entry point directly, the way the
    # test suite does (conv.individual_convolve(x, conv.weights)), followed by a second library layer through __call__
    "UserModule-individual": {"cls": "user", "sig": "svp"},
}
_USER = {}


def _user_model(in_sig, out_sig, D, bank_mi):
    import equinox as eqx
    import jax.random as random
    import ginjax.ml as ml
    from vlib import mlh

    if "cls" not in _USER:

        class TwoLayer(eqx.Module):
            first: ml.ConvContract
            second: ml.ConvContract

            def __call__(self, x, aux=None):
                h = self.first.individual_convolve(x, self.first.weights)
                return self.second(h), aux

        _USER["cls"] = TwoLayer
    ins, outs = mlh.sig_tuple(in_sig), mlh.sig_tuple(out_sig)
    k1, k2 = random.split(random.PRNGKey(5))
    return _USER["cls"](ml.ConvContract(ins, ins, bank_mi, use_bias=False, key=k1), ml.ConvContract(ins, outs, bank_mi, use_bias="auto", key=k2))


QUICK_MODELS = ["ConvBlock+norm", "ResNet+norm", "ResNet-pv", "UNet", "UserModule-individual"]


def bounds(tier):
    return {
        "models": list(MODELS) if tier == "thorough" else QUICK_MODELS,
        "optimisers": ["sgd", "adam", "adamw(weight_decay=0.1)"],
        "batch_alphabet": ["b1", "b2"],
        "max_sequence_length": 3 if tier == "quick" else 4,
        "train_runs": "ml.train with EpochStop(epochs in {1,2}) x batch size in {1,2}",
        "group": "computed stabiliser of the filter banks",
    }


def cases(tier, seed):
    out = []
    names = list(MODELS) if tier == "thorough" else QUICK_MODELS
    for m in names:
        for opt in ("sgd", "adam", "adamw"):
            out.append({"kind": "tree", "model": m, "opt": opt, "depth": 3 if tier == "quick" else 4, "cost": 10})
    for m in (names if tier == "thorough" else names[1:]):
        for epochs, bs in ((1, 2), (2, 1)) if tier == "quick" else ((1, 1), (1, 2), (2, 1), (2, 2)):
            out.append({"kind": "train", "model": m, "opt": "adamw", "epochs": epochs, "bs": bs, "cost": 10})
    return out


def run_case(case, seed):
    import equinox as eqx
    import jax
    import jax.numpy as jnp
    import jax.random as random
    import optax
    import ginjax.geometric as geom
    import ginjax.ml as ml
    import ginjax.ml.training as training
    from vlib import mlh

    D = 2
    spec = dict(MODELS[case["model"]], d=D, bias="auto", bank="B")
    sp = (4, 4)
    flags = (True, True)
    ckey = repr(sorted(case.items()))
    rng = rng_for(seed, "C09", ckey)
    if spec["cls"] == "user":
        in_sig, out_sig = MD.SIGS2[spec["sig"]]
        bank_mi, _, grp = mlh.bank(D, "B_M3_normalize")
        model = _user_model(in_sig, out_sig, D, bank_mi)
    else:
        model, in_sig, out_sig, grp = MD.build(spec)
    model = mlh.perturb_model(model, rng, 0.1)
    in_order = [tuple(kp) for kp, _ in in_sig]
    out_order = [tuple(kp) for kp, _ in out_sig]
    v = []

    def bad(fp, msg, **d):
        if len(v) < 4:
            v.append(viol(fp, msg, case=case, **d))

    def batch(r, n):
        xs = [mlh.make_input(in_sig, D, sp, r, integer=False) for _ in range(n)]
        ys = [mlh.make_input(out_sig, D, sp, r, integer=False) for _ in range(n)]
        X = geom.MultiImage({kp: jnp.asarray(np.stack([x[kp] for x in xs])) for kp in in_order}, D, flags)
        Y = geom.MultiImage({kp: jnp.asarray(np.stack([y[kp] for y in ys])) for kp in out_order}, D, flags)
        return X, Y

    def map_and_loss(m, x, y, aux):
        pred = jax.vmap(lambda xi: m(xi)[0])(x)
        return ml.smse_loss(pred, y), aux

    opt = {"sgd": optax.sgd(0.05), "adam": optax.adam(0.02), "adamw": optax.adamw(0.02, weight_decay=0.1)}[case["opt"]]
    banks0 = mlh.filter_leaves(model)
    struct0 = jax.tree_util.tree_structure(model)
    params0 = [np.asarray(l) for l in jax.tree_util.tree_leaves(eqx.filter(model, eqx.is_inexact_array))]
    xprobe = mlh.make_input(in_sig, D, sp, rng, integer=False)
    counters = {"states": 0, "transitions": 0, "traces": 0, "disabled": 0}
    moved_params = [0.0]
    nt = [False]
    maxdef = [0.0]

    def invariant(m, hist):
        counters["states"] += 1
        # (i) filter banks: a common positive rescaling only
        banks = mlh.filter_leaves(m)
        if [p for p, _ in banks] != [p for p, _ in banks0]:
            bad("C09/structure/banks", f"after {hist}: the set of filter-bank leaves changed")
            return
        for (p, a), (_, b) in zip(banks, banks0):
            nz = b != 0
            if a.shape != b.shape or np.any(a[~nz] != 0):
                bad(f"C09/filters/{case['opt']}/support", f"after {hist}: filter bank {p} changed its zero pattern")
                return
            ratio = a[nz].astype(np.float64) / b[nz]
            if ratio.size and (ratio.min() <= 0 or (ratio.max() - ratio.min()) > 2e-6 * abs(ratio.mean())):
                bad(f"C09/filters/{case['opt']}/not-a-common-rescaling", f"after {hist}: filter bank {p} is not c*original (ratio range {ratio.min():.6f}..{ratio.max():.6f})")
                return
        # (ii) static structure
        if jax.tree_util.tree_structure(m) != struct0:
            bad("C09/structure/treedef", f"after {hist}: the model's static structure changed")
            return
        # (iii) equivariance of the current model, every g, every layer
        w = mlh.model_equivariance(m, xprobe, in_order, grp, D, flags)
        maxdef[0] = max(maxdef[0], w["e"] if w["e"] <= TOL else 0.0)
        if w["e"] > TOL and w["pool_margin"] <= 1e-3:
            counters["tie_skips"] = counters.get("tie_skips", 0) + 1  # max-pool uniqueness premise fails: no verdict
        elif w["e"] > TOL:
            again = [mlh.model_equivariance(m, mlh.make_input(in_sig, D, sp, rng_for(seed, "C09confirm", i, ckey), integer=False), in_order, grp, D, flags) for i in range(2)]
            confirmed = all(a["e"] > TOL and a["pool_margin"] > 1e-3 for a in again)
            if confirmed:
                g = w["g"]
                kind = "reflection" if G.det(g) < 0 else "rotation"
                layer = str(w["where"]).split(":")[-1]
                bad(f"C09/equivariance/{case['opt']}/{layer}/{kind}", f"after training history {hist} the model is no longer equivariant: {w['where']} block {w['t']}, relative defect {w['e']:.2e}, g={g.tolist()}")
                return
        # (iv) parameters did move
        cur = [np.asarray(l) for l in jax.tree_util.tree_leaves(eqx.filter(m, eqx.is_inexact_array))]
        mv = max(float(np.max(np.abs(a - b))) for a, b in zip(cur, params0)) if hist else 0.0
        moved_params[0] = max(moved_params[0], mv)
        if hist and w["moved"] and w["nonzero"] and mv > 1e-4:
            nt[0] = True

    if case["kind"] == "tree":
        b1, b2 = batch(rng, 2), batch(rng, 2)
        batches = {"b1": b1, "b2": b2}
        opt_state0 = opt.init(eqx.filter(model, eqx.is_array))
        invariant(model, [])

        def rec(m, st, hist):
            if len(hist) == case["depth"]:
                counters["traces"] += 1
                return
            for name in ("b1", "b2"):
                X, Y = batches[name]
                try:
                    m2, st2, loss, _ = training.train_step(map_and_loss, m, opt, st, X.reshape_pmap([None]), Y.reshape_pmap([None]), None)
                except Exception as e:
                    counters["disabled"] += 1
                    if counters["disabled"] == 1:
                        bad(f"C09/train_step/{type(e).__name__}", f"train_step raised {type(e).__name__}: {str(e)[:200]}")
                    continue
                counters["transitions"] += 1
                if not np.isfinite(float(loss)):
                    counters["disabled"] += 1
                    continue
                invariant(m2, hist + [name])
                if v:
                    return
                rec(m2, st2, hist + [name])

        rec(model, opt_state0, [])
    else:
        L = 4
        X, Y = batch(rng, L)
        stop = ml.EpochStop(case["epochs"])
        trained, _, tl, _ = ml.train(X, Y, map_and_loss, model, random.PRNGKey(seed + 11), stop, case["bs"], opt)
        counters["transitions"] += case["epochs"] * (L // case["bs"])
        counters["traces"] += 1
        invariant(model, [])
        invariant(trained, [f"ml.train(epochs={case['epochs']}, batch={case['bs']})"])
    return {
        "violations": v,
        "nt": nt[0],
        "evals": counters["states"] * max(1, len(grp)),
        "states": counters["states"],
        "transitions": counters["transitions"],
        "traces": counters["traces"],
        "metric": maxdef[0],
        "outcome": f"{case['kind']}/{case['model']}/{case['opt']}/moved={moved_params[0] > 1e-4}",
    }


CLAIM = {
    "text": "For each (model, optimiser) the complete tree of mini-batch histories up to length 3 (quick) / 4 (thorough) is driven through the real train_step, and full ml.train runs are made; in every reached state the filter banks must be a common positive multiple of the originals, the static structure unchanged and the trained model equivariant for every element of the computed symmetry group (verdict at the output, first diverging layer named by the trace monitor).",
    "note": "L1 applies. Trusted: optax; the ratio test; vlib/ref/action.py. Longer histories and other optimisers are outside the bound.",
    "technique": "explicit exploration of all bounded training histories on the real train_step with an invariant checked in every state",
}
