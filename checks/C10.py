"""C10 — symmetrisation wrappers make any inner model equivariant.

GroupAverage: a family of deliberately NON-equivariant inner models (position-dependent integer weights, channel
mixing, squares, component picking, type changing, tanh, a shift) x EVERY <=2-generated subgroup G of B_2 and of
B_3 (quick: named subgroups of B_3) x every g in G x signatures incl. pseudo types x all four (always_average,
inference) combinations x empty operator list. Averaging active => W(g.x) == g.W(x) for all g in G (polynomial
integer inner models and |G| a power of two: exact); inactive => W(x) == inner(x) bit for bit.
Climate1D: extents x past/future steps x dynamic type sets in EVERY storage order x constant layouts x inner 1-D
models: commutes with the equator reflection; to1d is a bijection on entries; from1d(to1d(x)) == x; to1d turns the
longitude reflection into the 1-D reflection; get_1d_signature matches to1d.
"""
import itertools as it

import numpy as np

from vlib.gj import viol, rng_for
from vlib.ref import group as G
from vlib.ref.action import ref_action

ID = "C10"
INPUTS_MUST_BE_UNCHANGED = True  # runner post-condition: no call modifies the input object it is given
LEVEL = "exploration"
DESIGN_REF = "DESIGN.md §4 C10"
RULE = (
    "GroupAverage: one case per (d, subgroup G, inner model, signature); every g in G and all four flag combinations "
    "inside. Climate1D: one case per (extents, past, future, dynamic type set, storage order, constant layout, inner "
    "model). evaluations = (g | identity) comparisons. Non-trivial = the inner model alone is NOT equivariant under "
    "some g in G (measured) and |G|>1; distinct = case."
)
ASSUMPTIONS = [
    "inner models are a fixed family of 7 non-equivariant maps (integer polynomial ones compared exactly when |G| is a power of two, else 1e-5); 'any inner model' is covered by that family, not by all functions",
    "groups: all <=2-generated subgroups of B_2; named subgroups of B_3 (quick) / all <=2-generated subgroups of B_3 (thorough)",
    "square extents and non-square extents (3x4, 2x3x4) for every G, including axis-exchanging ones (the inner models compute their position weights from the extents they are handed, so they accept both orientations)",
    "Climate1D: lossless round trip claimed for inputs without constant fields and future_steps == past_steps (from1d has no constant-field inverse)",
]

INNER = ["posweight", "square", "mix", "component", "typechange", "tanh", "shift"]
GA_SIGS = {
    "sv": [((0, 0), 2), ((1, 0), 1)],
    "pseudo": [((0, 1), 1), ((1, 1), 2)],
    "t2": [((2, 0), 1), ((0, 0), 1)],
    "v-unsorted": [((1, 0), 2), ((0, 1), 1), ((0, 0), 1)],
}


def _groups(d, tier):
    if d == 2 or tier == "thorough":
        subs = G.subgroups_2gen(d)
        return {f"sub{i}_{len(s)}": s for i, s in enumerate(subs)}
    return {k: v for k, v in G.named_groups(3).items()}


def bounds(tier):
    return {
        "groups": {"2": "all 10 <=2-generated subgroups of B_2", "3": "named subgroups of B_3" if tier == "quick" else f"all {len(G.subgroups_2gen(3))} <=2-generated subgroups of B_3"},
        "inner_models": INNER,
        "signatures": {k: str(v) for k, v in GA_SIGS.items()},
        "flags(always_average, inference)": "all 4 + empty operator list",
        "climate": {"extents": [[4, 3], [3, 3], [5, 2], [2, 4]], "past": [1, 2, 3], "future": [1, 2, 3], "dynamic_types": "non-empty subsets of {(0,0),(0,1),(1,0)} in every storage order", "constants": ["none", "{(0,0):1}", "{(0,0):2,(0,1):1}"]},
    }


def cases(tier, seed):
    out = []
    for d in (2, 3):
        for gname, grp in _groups(d, tier).items():
            for inner in INNER:
                sigs = list(GA_SIGS) if (d == 2 or tier == "thorough") else ["sv", "pseudo"]
                for sig in sigs:
                    if d == 3 and sig == "t2" and tier == "quick":
                        continue
                    if tier == "thorough" and d == 3 and len(grp) > 8 and (inner not in ("component", "typechange", "tanh") or sig not in ("sv", "pseudo")):
                        continue  # large subgroups of B_3: three inner models x two signatures (cost grows with |G|^2)
                    out.append({"kind": "ga", "d": d, "G": gname, "inner": inner, "sig": sig, "cost": max(1, len(grp) // 4), "grp": f"ga{d}"})
                    # groups that exchange axes on NON-square images: g.x has other extents than x, the inner models are
                    # defined for any extents (their position weights are computed from the extents they are given)
                    axis_preserving = all(np.array_equal(np.abs(g), np.eye(d, dtype=int)) for g in grp)
                    if not axis_preserving and sig in ("sv", "pseudo") and (d == 2 or inner in ("posweight", "typechange", "tanh")) and (d == 2 or len(grp) <= (16 if tier == "thorough" else 8)):
                        out.append({"kind": "ga", "d": d, "G": gname, "inner": inner, "sig": sig, "rect": True, "cost": max(1, len(grp) // 4), "grp": f"ga{d}"})
    types = [(0, 0), (0, 1), (1, 0)]
    for ext in ([4, 3], [3, 3], [5, 2], [2, 4]):
        for past, fut in it.product((1, 2, 3), repeat=2):
            if fut > past:
                continue
            for r in (1, 2, 3):
                for subset in it.combinations(types, r):
                    for order in it.permutations(subset):
                        for ci, const in enumerate(({}, {"0,0": 1}, {"0,0": 2, "0,1": 1})):
                            if tier == "quick" and (ext != [4, 3]) and (ci == 2 or past == 3):
                                continue
                            out.append({"kind": "climate", "ext": ext, "past": past, "fut": fut, "order": [list(t) for t in order], "const": const, "cost": 1, "grp": "climate"})
    return out


# ----------------------------------------------------------------------------- inner models (not equivariant on purpose)
def _pos(sp, xp):
    grids = np.meshgrid(*[np.arange(n) for n in sp], indexing="ij")
    w = sum((2 * i + 1) * g for i, g in enumerate(grids)) + 1
    return xp.asarray(w.astype(np.float32))


def make_inner(name, D, geom, jnp):
    def f(x, aux=None):
        sp = x.get_spatial_dims()
        P = _pos(sp, jnp)
        out = x.empty()
        for (k, p), blk in x.items():
            Pk = P.reshape((1,) + tuple(sp) + (1,) * k)
            if name == "posweight":
                o = blk * Pk
            elif name == "square":
                o = blk * blk + Pk
            elif name == "mix":
                c = blk.shape[0]
                M = jnp.asarray((np.arange(c * c).reshape(c, c) % 3 + 1).astype(np.float32))
                o = jnp.einsum("ij,j...->i...", M, blk) * (1 + Pk % 2)
            elif name == "component":
                o = blk * (blk.reshape(blk.shape[: 1 + D] + (-1,))[..., 0].reshape(blk.shape[: 1 + D] + (1,) * k)) if k > 0 else blk * Pk
            elif name == "tanh":
                o = jnp.tanh(0.3 * blk * Pk)
            elif name == "shift":
                o = jnp.roll(blk, 1, axis=1) + 2 * blk
            else:  # typechange handled below
                o = blk
            out.append(k, p, o)
        if name == "typechange":
            out = x.empty()
            for (k, p), blk in x.items():
                if k >= 1:
                    # declare the components of a tensor as (pseudo)scalar channels: deliberately ill-typed
                    comps = jnp.moveaxis(blk.reshape(blk.shape[: 1 + D] + (-1,)), -1, 1).reshape((-1,) + tuple(sp))
                    out.append(0, (p + 1) % 2, comps * P.reshape((1,) + tuple(sp)))
                else:
                    out.append(k, p, blk * P.reshape((1,) + tuple(sp)))
        return out, aux

    return f


def _ga_case(case, seed):
    import jax.numpy as jnp
    import ginjax.geometric as geom
    import ginjax.models as models
    from vlib import mlh

    D = case["d"]
    tier_groups = _groups(D, "thorough" if case["G"].startswith("sub") else "quick")
    grp = tier_groups[case["G"]]
    axis_preserving = all(np.array_equal(np.abs(g), np.eye(D, dtype=int)) for g in grp)
    sp = ((3, 4) if D == 2 else (2, 3, 4)) if (axis_preserving or case.get("rect")) else (3,) * D
    sig = GA_SIGS[case["sig"]]
    order = [tuple(kp) for kp, _ in sig]
    rng = rng_for(0, "C10ga", repr(sorted(case.items())))
    xb = mlh.make_input(sig, D, sp, rng, integer=True)
    flags = (True,) * D
    inner = make_inner(case["inner"], D, geom, jnp)
    ops = [np.array(g) for g in grp]
    v = []
    evals = 0
    exact = case["inner"] != "tanh" and (len(grp) & (len(grp) - 1)) == 0

    def bad(fp, msg):
        if len(v) < 5:
            v.append(viol(fp, msg, case=case))

    import jax

    _jitted = {}

    def run(w, b, fl):
        # large groups: trace the wrapper once (|G| inner calls + 2|G| group actions) instead of re-running it eagerly
        if len(grp) >= 8 and isinstance(w, models.GroupAverage) and (w.always_average or w.inference) and len(w.operators) > 0:
            if id(w) not in _jitted:
                _jitted[id(w)] = (jax.jit(lambda z, w=w: w(z)[0]), w)
            return mlh.np_blocks(_jitted[id(w)][0](mlh.to_mi(b, D, fl, order=order)))
        return mlh.np_blocks(w(mlh.to_mi(b, D, fl, order=order))[0])

    inner_defect = 0.0
    base_inner = run(inner, xb, flags)
    for aa, inf in it.product((False, True), repeat=2):
        w = models.GroupAverage(inner, ops, aa, inf)
        base = run(w, xb, flags)
        if not (aa or inf):
            evals += 1
            if set(base) != set(base_inner) or any(not np.array_equal(base[t], base_inner[t]) for t in base_inner):
                bad("C10/GroupAverage/inactive-differs", "averaging off but the wrapper output != inner model output")
            continue
        full = aa and not inf  # the three active combinations run the same code path: all g once, generators otherwise
        for g in (grp if full else [h for h in grp if not np.array_equal(h, np.eye(D, dtype=int))][:2]):
            got = run(w, mlh.act_blocks(xb, g, D), flags)
            exp = mlh.act_blocks(base, g, D)
            evals += 1
            for t in exp:
                ok = t in got and got[t].shape == exp[t].shape and (np.array_equal(got[t], exp[t]) if exact else mlh.relerr(got[t], exp[t]) <= 1e-5)
                if not ok:
                    bad(f"C10/GroupAverage/not-equivariant/aa={aa},inf={inf}", f"W(g.x) != g.W(x) on block {t} for g={np.array(g).tolist()} (|G|={len(grp)}, inner={case['inner']})")
                    break
            if aa and not inf:
                gi = run(inner, mlh.act_blocks(xb, g, D), flags)
                ei = mlh.act_blocks(base_inner, g, D)
                inner_defect = max(inner_defect, max((mlh.relerr(gi[t], ei[t]) if t in gi else 1.0) for t in ei))
    w0 = models.GroupAverage(inner, [], True, True)
    b0 = run(w0, xb, flags)
    evals += 1
    if any(not np.array_equal(b0[t], base_inner[t]) for t in base_inner):
        bad("C10/GroupAverage/empty-operators", "empty operator list: wrapper output != inner model output")
    return {"violations": v, "nt": len(grp) > 1 and inner_defect > 1e-3, "evals": evals, "outcome": f"ga/d{D}/|G|={len(grp)}/rect={bool(case.get('rect'))}/inner-breaks={inner_defect > 1e-3}"}


def _climate_case(case, seed):
    import jax.numpy as jnp
    import ginjax.geometric as geom
    import ginjax.models as models
    from vlib import mlh

    nl, nlat = case["ext"]
    past, fut = case["past"], case["fut"]
    order = [tuple(t) for t in case["order"]]
    const = {tuple(int(q) for q in k.split(",")): c for k, c in case["const"].items()}
    chan = {(0, 0): 2, (0, 1): 1, (1, 0): 1}
    rng = rng_for(0, "C10cl", repr(sorted((k, str(v_)) for k, v_ in case.items())))
    v = []
    evals = 0

    def bad(fp, msg):
        if len(v) < 5:
            v.append(viol(fp, msg, case=case))

    # input: dynamic channels c*past per type (+ constants of that type at the end), types in storage order
    keys_in = list(order) + [t for t in const if t not in order]
    blocks = {}
    for t in keys_in:
        c = chan[t] * past if t in order else 0
        n = c + const.get(t, 0)
        blocks[t] = rng.integers(-3, 4, size=(n, nl, nlat) + (2,) * t[0]).astype(np.float32)
    x = mlh.to_mi(blocks, 2, (True, False), order=keys_in)
    out_keys = geom.Signature(tuple((t, chan[t] * fut) for t in order))

    # 1-D channel counts per parity
    c1 = {0: (chan[(0, 0)] if (0, 0) in order else 0) + (chan[(1, 0)] if (1, 0) in order else 0), 1: (chan[(0, 1)] if (0, 1) in order else 0) + (chan[(1, 0)] if (1, 0) in order else 0)}

    def inner(x1, aux=None):
        """non-equivariant, history- and constant-sensitive 1-D model: keeps `fut` of the `past` steps"""
        out = x1.empty()
        P = jnp.asarray((np.arange(nl) % 3 + 1).astype(np.float32))
        for (k, p), blk in x1.items():
            nd = nlat * c1[p] * past
            if nd == 0:
                continue
            dyn = blk[:nd].reshape((nlat, c1[p], past, nl))
            cst = jnp.sum(blk[nd:], axis=0) if blk.shape[0] > nd else 0.0
            o = dyn[:, :, :fut] * P + dyn[:, :, past - fut :] ** 2 + cst
            o = o + jnp.arange(nlat).reshape((nlat, 1, 1, 1))  # latitude dependent: breaks the equator symmetry
            out.append(k, p, o.reshape((-1, nl)))
        return out, aux

    m = models.Climate1D(inner, out_keys, past, fut, (nl, nlat), const)
    # (e) get_1d_signature == signature of to1d (as dictionaries)
    x1 = m.to1d(x)
    evals += 1
    sig1 = {t: c for t, c in models.Climate1D.get_1d_signature(x.get_signature(), nlat)}
    got1 = {t: b.shape[0] for t, b in x1.items()}
    if sig1 != got1:
        bad("C10/Climate1D/get_1d_signature", f"get_1d_signature {sig1} != signature of to1d {got1}")
    if x1.D != 1 or any(b.ndim != 2 or b.shape[1] != nl for b in x1.values()):
        bad("C10/Climate1D/to1d-shape", "to1d blocks are not (rows, n_lons)")
    # (b) bijection on entries
    e_in = np.sort(np.concatenate([b.ravel() for b in blocks.values()]))
    e_out = np.sort(np.concatenate([np.asarray(b).ravel() for b in x1.values()]))
    if e_in.shape != e_out.shape or not np.array_equal(e_in, e_out):
        bad("C10/Climate1D/to1d-not-bijective", "to1d does not preserve the multiset of entries")
    # (d) longitude reflection becomes the 1-D reflection
    F = np.array([[-1, 0], [0, 1]])
    r = np.array([[-1]])
    xF = mlh.to_mi(mlh.act_blocks(blocks, F, 2), 2, (True, False), order=keys_in)
    lhs = {t: np.asarray(b) for t, b in m.to1d(xF).items()}
    rhs = {t: ref_action(np.asarray(b), t[1], r, 1, lead=1) for t, b in x1.items()}
    evals += 1
    if set(lhs) != set(rhs) or any(not np.array_equal(lhs[t], rhs[t]) for t in rhs):
        bad("C10/Climate1D/longitude-reflection", "to1d(F.x) != r.to1d(x) for the longitude reflection")
    # (c) lossless round trip (no constants, future == past)
    if not const and fut == past:
        back = m.from1d(x1)
        evals += 1
        if set(back.keys()) != set(blocks) or any(np.asarray(back[t]).shape != blocks[t].shape or not np.array_equal(np.asarray(back[t]), blocks[t]) for t in blocks):
            bad("C10/Climate1D/roundtrip/" + ("vector-first" if order and order[0] == (1, 0) else "other"), f"from1d(to1d(x)) != x for storage order {order}")
    # (a) commutes with the equator reflection for any inner model
    R = np.array([[1, 0], [0, -1]])
    y = mlh.np_blocks(m(x)[0])
    yR = mlh.np_blocks(m(mlh.to_mi(mlh.act_blocks(blocks, R, 2), 2, (True, False), order=keys_in))[0])
    exp = mlh.act_blocks(y, R, 2)
    evals += 2
    for t in exp:
        if t not in yR or yR[t].shape != exp[t].shape or not np.array_equal(yR[t], exp[t]):
            bad("C10/Climate1D/equator-reflection", f"W(R.x) != R.W(x) on block {t}")
            break
    # negative control: the un-averaged branch alone is not equator-equivariant
    y1 = mlh.np_blocks(m.from1d(inner(m.to1d(x))[0]))
    y1R = mlh.np_blocks(m.from1d(inner(m.to1d(mlh.to_mi(mlh.act_blocks(blocks, R, 2), 2, (True, False), order=keys_in)))[0]))
    e1 = mlh.act_blocks(y1, R, 2)
    breaks = any(not np.array_equal(y1R[t], e1[t]) for t in e1)
    if {t: b.shape[0] for t, b in y.items()} != {t: c for t, c in out_keys}:
        bad("C10/Climate1D/output-signature", f"output channels {[(t, b.shape[0]) for t, b in y.items()]} != requested {out_keys}")
    return {"violations": v, "nt": bool(breaks), "evals": evals, "outcome": f"climate/types={len(order)}/const={len(const)}/rt={not const and fut == past}"}


def run_case(case, seed):
    return _ga_case(case, seed) if case["kind"] == "ga" else _climate_case(case, seed)


CLAIM = {
    "text": "GroupAverage: every <=2-generated subgroup of B_2 (and named / all subgroups of B_3) x 7 deliberately non-equivariant inner models x signatures incl. pseudo types, every g of the group and all flag combinations, exact for integer polynomial inner models. Climate1D: every (extent, past, future, dynamic type set in every storage order, constant layout) cell: equator-reflection equivariance around a non-equivariant inner model, to1d bijectivity, exact round trip, longitude reflection, 1-D signature.",
    "note": "'Any inner model' is covered by a fixed adversarial family, not by all functions. Trusted: vlib/ref/action.py, vlib/ref/group.py.",
    "technique": "exhaustive enumeration of (subgroup, inner model, signature) and (layout) cells x all group elements, exact comparison against a reference action",
}
