"""C11 — the linear layer computes its defining sum and returns the requested types.

Cells: signatures (single type pairs over {(k,p): k<=2}, multi-type with unequal channels, permuted key order) x
filter bank x all five bias settings x flags x padding x stride x dilations x extents x d. Oracle: an independent
evaluation of  out_t = sum_s contract(conv(x_s, sum_f w_stf F_f)) + bias rule  from the layer's public fields
with the numpy reference convolution — exact (int64) for {0,+-1} banks with integer weights and inputs, 1e-5
otherwise; output signature == targets reachable through the bank, in target order, requested channels, extents of
the size formula; missing_filter == (some pair lacks a filter).
"""
import numpy as np

from checks import _convlayer as CL
from vlib.gj import viol, rng_for
from vlib.ref.conv import out_extent, resolve_padding

ID = "C11"
LEVEL = "exploration"
DESIGN_REF = "DESIGN.md §4 C11"
RULE = (
    "cells enumerated by deviations from the default cell (sv->sv, B_d bank M=3 scale one, bias auto, torus, padding "
    "None, unit stride/dilation, 4x4); every enabled cell builds the real ConvContract, sets integer weights and "
    "dyadic biases, runs it on integer inputs and on generic inputs and compares with the reference sum. "
    "evaluations = layer applications compared. Non-trivial = at least one output block non-zero; distinct = cell."
)
ASSUMPTIONS = [
    "the multilinear core is compared exactly (int64 reference) for banks with entries in {0,+-1}; normalised banks and the bias part with tolerance 1e-5 relative",
    "L1 for the bias part: generic real inputs derived from VERIF_SEED (the bias rule is affine in the input, parameters set away from their initial values)",
    "L2: d in {2,3}; types k<=2 (d=3: k<=1); deviation bound quick 2 (d=2 and d=3), thorough 3 (d=2 and d=3)",
    "the input holds exactly the declared input signature (the layer's precondition)",
]


def bounds(tier):
    return {"dims_d2": {k: (v if k != "sig" else f"{len(v)} signatures") for k, v in CL.dims(2, True).items()}, "dims_d3": {k: (v if k != "sig" else f"{len(v)} signatures") for k, v in CL.dims(3, True).items()}, "deviation_bound": {"quick": {"d2": 2, "d3": 2}, "thorough": {"d2": 3, "d3": 3}}[tier]}


def cases(tier, seed):
    plan = {"quick": {2: 2, 3: 2}, "thorough": {2: 3, 3: 3}}[tier]
    return CL.gen_cases(tier, plan, True)


def run_case(case, seed):
    if not CL.enabled(case):
        return {"status": "disabled"}
    import equinox as eqx
    import jax.numpy as jnp
    import ginjax.geometric as geom
    from vlib import mlh

    D = case["d"]
    sp = tuple(case["ext"])
    flags = tuple(case["flags"])
    v = []
    evals = 0

    def bad(fp, msg, **d):
        if len(v) < 5:
            v.append(viol(fp, msg, case=case, **d))

    try:
        layer, bank_np, stab, in_sig, out_sig = CL.build(case)
    except Exception as e:
        bad(f"C11/constructor/{type(e).__name__}", f"ConvContract constructor raised {type(e).__name__}: {str(e)[:150]}")
        return {"violations": v, "nt": True}
    in_types = [tuple(kp) for kp, _ in in_sig]
    out_types = [tuple(kp) for kp, _ in out_sig]
    fk = lambda s, t: (s[0] + t[0], (s[1] + t[1]) % 2)
    reachable = [t for t in out_types if any(fk(s, t) in bank_np for s in in_types)]
    missing = any(fk(s, t) not in bank_np for s in in_types for t in out_types)
    if bool(layer.missing_filter) != missing:
        bad("C11/missing_filter", f"missing_filter={layer.missing_filter} but some pair lacks a filter: {missing}")
    # expected spatial extents from the size formula
    M = next(iter(bank_np.values())).shape[1 : 1 + D]
    stride = CL._t(case.get("stride", 1))
    stride_t = stride if isinstance(stride, tuple) else (stride,) * D
    rhs = CL._t(case["rhs"])
    rhs_t = rhs if isinstance(rhs, tuple) else (rhs,) * D
    lhs = CL._t(case["lhs"])
    wrap, lit = resolve_padding(D, M, flags, CL._t(case["pad"]), rhs_t)
    exp_sp = tuple(out_extent(sp[i] + 2 * wrap[i], lit[i][0], lit[i][1], M[i], rhs_t[i], stride_t[i], 1 if lhs is None else lhs[i]) for i in range(D))

    rng = rng_for(seed, "C11", repr(sorted((k, str(v_)) for k, v_ in case.items())))
    bias_mode = case["bias"]
    for variant in ("integer", "generic"):
        integer = variant == "integer"
        lay = mlh.set_convcontract_params(layer, rng, integer=integer)
        xb = mlh.make_input(in_sig, D, sp, rng, integer=integer)
        x = mlh.to_mi(xb, D, flags, order=in_types)
        try:
            y = lay(x)
        except Exception as e:
            bad(f"C11/call/{type(e).__name__}/bias={bias_mode}", f"layer raised {type(e).__name__}: {str(e)[:150]}")
            break
        evals += 1
        got = mlh.np_blocks(y)
        # ---- output signature: exactly the reachable targets, in target order, requested channels, size-formula extents
        if list(y.keys()) != reachable:
            if set(y.keys()) != set(reachable):
                kind = "dropped" if set(reachable) - set(y.keys()) else "extra"
                bad(f"C11/signature/{kind}/bias={bias_mode}", f"output types {list(y.keys())} but targets reachable through the bank are {reachable}")
                break
            # same types in another order: not demanded by C11 (C20 owns the type order); carry on with the values
        for t, oc in out_sig:
            t = tuple(t)
            if t in got:
                es = (oc,) + exp_sp + (D,) * t[0]
                if got[t].shape != es:
                    bad("C11/signature/shape", f"block {t} has shape {got[t].shape}, expected {es}")
        if v:
            break
        # ---- values: multilinear core (exact where possible) and bias rule
        core, is_int = mlh.ref_convcontract(lay, xb, in_types, D, flags, bank_np, with_bias=False)
        full, _ = mlh.ref_convcontract(lay, xb, in_types, D, flags, bank_np, with_bias=True)
        nobias = eqx.tree_at(lambda l: l.weights, CL.build(dict(case, bias=False))[0], lay.weights)
        g0 = mlh.np_blocks(nobias(x))
        evals += 1
        for t in reachable:
            if got[t].size == 0:
                continue  # empty output (e.g. VALID padding with a dilated filter larger than the image)
            if is_int and integer:
                if g0[t].shape != core[t].shape or not np.array_equal(g0[t], core[t]):
                    bad(f"C11/core/exact/{'multi' if len(in_types) > 1 else 'single'}", f"bias-free block {t} != sum_s contract(conv(x_s, w.F)) (exact integer comparison)")
            elif mlh.relerr(g0[t], core[t]) > 1e-5:
                bad("C11/core/float", f"bias-free block {t} differs from the defining sum by {mlh.relerr(g0[t], core[t]):.2e}")
            if mlh.relerr(got[t], full[t]) > 1e-5:
                which = "scalar" if t == (0, 0) else "nonscalar"
                bad(f"C11/bias/{bias_mode}/{which}", f"block {t} with bias setting {bias_mode!r} differs from core + bias rule by {mlh.relerr(got[t], full[t]):.2e}")
            # the bias never adds a plain constant to a non-scalar type
            if t != (0, 0):
                delta = got[t].astype(np.float64) - g0[t]
                mean = g0[t].astype(np.float64).mean(axis=tuple(range(1, 1 + D)), keepdims=True)
                resid = delta - mean * (np.asarray(lay.bias[t]) if (t in lay.bias and bias_mode in ("auto", "mean", True)) else 0.0)
                if np.max(np.abs(resid)) > 1e-4 * (1 + np.max(np.abs(g0[t]))):
                    bad(f"C11/bias/{bias_mode}/additive-on-nonscalar", f"block {t}: bias contribution is not a per-channel multiple of the spatial mean")
    # ---- every weight block feeding the last reachable target exactly zero (a pruned layer): the block must still be
    #      emitted (zeros plus the bias rule); and an integer-typed input must give what its float copy gives
    if not v and reachable:
        lay = mlh.set_convcontract_params(layer, rng, integer=True)
        tz = reachable[-1]
        neww = {s: {t: (jnp.zeros_like(w) if t == tz else w) for t, w in d.items()} for s, d in lay.weights.items()}
        layz = eqx.tree_at(lambda l: l.weights, lay, neww)
        xb = mlh.make_input(in_sig, D, sp, rng, integer=True)
        try:
            yz = layz(mlh.to_mi(xb, D, flags, order=in_types))
            evals += 1
            if set(yz.keys()) != set(reachable):
                bad("C11/signature/dropped/zero-weights", f"all weights into {tz} are zero: output types {list(yz.keys())}, expected {reachable}")
            else:
                fullz, _ = mlh.ref_convcontract(layz, xb, in_types, D, flags, bank_np, with_bias=True)
                for t in reachable:
                    if np.asarray(yz[t]).size and mlh.relerr(np.asarray(yz[t]), fullz[t]) > 1e-5:
                        bad("C11/value/zero-weights", f"block {t} wrong when the weights into {tz} are zero")
                        break
            yi = lay(mlh.to_mi({kp: b.astype(np.int32) for kp, b in xb.items()}, D, flags, order=in_types))
            yf = lay(mlh.to_mi(xb, D, flags, order=in_types))
            evals += 2
            for t in reachable:
                if t not in yi or mlh.relerr(np.asarray(yi[t]).astype(np.float64), np.asarray(yf[t])) > 1e-5:
                    bad("C11/dtype/int-input", f"block {t}: an integer-typed input gives a different result than the same values as float32")
                    break
        except Exception as e:
            bad(f"C11/call/{type(e).__name__}/variant", f"layer raised {type(e).__name__} on a zero-weight / integer-input variant: {str(e)[:150]}")
    nontrivial = any(np.any(b != 0) for b in (got.values() if evals else []))
    return {"violations": v, "nt": bool(nontrivial), "evals": evals, "outcome": f"d{D}/{case['bank']}/bias={case['bias']}/reach={len(reachable)}/{len(out_types)}"}


CLAIM = {
    "text": "Every enabled cell within the deviation bound builds the real ConvContract, sets parameters away from their initial values and compares the output with an independent evaluation of the defining sum (numpy reference convolution; exact int64 for {0,+-1} banks) plus the bias rule for all five bias settings; output types, order, channels, extents and missing_filter are decided from the bank.",
    "note": "Trusted: vlib/ref/conv.py and the 40-line reference of the layer sum in vlib/mlh.py. L1 for the affine bias part (generic inputs from VERIF_SEED).",
    "technique": "deviation-bounded exhaustive enumeration of layer configurations against a reference evaluation (exact on integer data)",
}
