"""C12 — multi-image arithmetic pairs blocks by type, whatever their storage history.

Explicit-state exploration: starting from every construction order, every content-preserving operation (copy,
jit / vmap identity, tree flatten/unflatten, from_vector with every template order, rebuild by append in every
order, concat of two halves, expand∘combine) is applied from every reachable state up to a depth bound; states are
hashed canonically (key order, D, flags, dtype/shape/bytes of every block, last operation). For EVERY ordered pair
of reachable states (a of contents A, b of contents B) the real +, -, *, /, ==, != are compared with the
dict-of-arrays model. Different type sets must be rejected (+/-) resp. compare unequal.
"""
import itertools as it

import numpy as np

from vlib.gj import viol

ID = "C12"
LEVEL = "model_checking"
DESIGN_REF = "DESIGN.md §4 C12"
RULE = (
    "one case per (type set, leading-axis layout, d); BFS over operation sequences of length <= depth from every "
    "construction order, each transition calls the real method; canonical state = (key order, last op, D, flags, "
    "block dtype/shape/bytes). Every ordered pair of reachable states of operand A and operand B is combined with "
    "+,-,==,!= and every state with *s, /s; evaluations = operator applications compared with the model. "
    "Non-trivial pair = the two operands have different key orders (counted); distinct = distinct (case, order pair)."
)
ASSUMPTIONS = [
    "contents are identifier integers (distinct per type/entry) so any mis-pairing changes numbers; float32 exact",
    "depth bound: quick 2, thorough 3; type sets <= 3 types; leading axes 0..2",
    "canonical-state deduplication is sound because every explored operation and operator only reads (key order, D, flags, blocks)",
]

TYPESETS = {
    "two-scalars": {(0, 0): 1, (0, 1): 1},  # equal shapes: a positional mix-up is silent
    "two-vectors": {(1, 0): 1, (1, 1): 1},
    "equal-size": {(0, 0): 2, (1, 0): 1},  # d=2: equal element count, different shape
    "three": {(0, 0): 1, (1, 0): 2, (0, 1): 1},
    "tensor": {(2, 0): 1, (0, 0): 4, (1, 1): 2},
}


def bounds(tier):
    return {
        "type_sets": {k: {str(t): c for t, c in v.items()} for k, v in TYPESETS.items()},
        "leading_axes": [0, 1, 2],
        "d": [2] if tier == "quick" else [2, 3],
        "depth": 2 if tier == "quick" else 3,
        "operations": ["construct(pi)", "copy", "jit-id", "vmap-id", "flatten/unflatten", "from_vector(template pi)", "append-rebuild(pi)", "concat-halves", "expand-combine"],
        "operators": ["+", "-", "*s", "/s", "==", "!=", "the same under jax.jit", "integer-typed blocks", "operands unchanged afterwards"],
    }


def cases(tier, seed):
    out = []
    for d in ([2] if tier == "quick" else [2, 3]):
        for name in TYPESETS:
            for lead in (0, 1, 2):
                out.append({"d": d, "types": name, "lead": lead, "depth": 2 if tier == "quick" else 3, "cost": 6 if len(TYPESETS[name]) == 3 else 1})
    return out


def _contents(tset, lead, D, sp, base):
    """identifier data: block (k,p) with `lead` leading axes; channel axis is the last leading axis."""
    blocks = {}
    off = base
    for kp, c in sorted(tset.items()):
        if lead == 0:
            shape = sp + (D,) * kp[0]
        elif lead == 1:
            shape = (c,) + sp + (D,) * kp[0]
        else:
            shape = (2, c) + sp + (D,) * kp[0]
        n = int(np.prod(shape))
        blocks[kp] = (np.arange(n, dtype=np.float32) + off).reshape(shape)
        off += n + 17
    return blocks


def run_case(case, seed):
    import jax
    import jax.numpy as jnp
    import ginjax.geometric as geom

    D, lead = case["d"], case["lead"]
    tset = TYPESETS[case["types"]]
    sp = (2, 2) if D == 2 else (2, 1, 2)
    flags = (True, False) + (True,) * (D - 2)
    keys = sorted(tset)
    perms = [list(p) for p in it.permutations(keys)]
    v = []
    counters = {"transitions": 0, "evals": 0}

    def bad(fp, msg, **d):
        if len(v) < 5:
            v.append(viol(fp, msg, case=case, **d))

    def build(blocks, order):
        return geom.MultiImage({kp: jnp.asarray(blocks[kp]) for kp in order}, D, flags)

    def canon(m, last):
        return (tuple(m.keys()), last, m.D, tuple(m.is_torus), tuple((kp, str(b.dtype), b.shape, np.asarray(b).tobytes()) for kp, b in m.items()))

    def ops(m):
        """content-preserving transitions enabled in state m -> list of (name, thunk)"""
        out = [("copy", lambda: m.copy()), ("jit", lambda: jax.jit(lambda z: z)(m))]
        leaves, treedef = jax.tree_util.tree_flatten(m)
        out.append(("flatten", lambda: jax.tree_util.tree_unflatten(treedef, leaves)))
        n_lead = m.get_n_leading()
        if n_lead >= 1:
            same_first = len({b.shape[0] for b in m.values()}) == 1
            if same_first:
                out.append(("vmap", lambda: jax.vmap(lambda z: z)(m)))
        for pi in perms:
            tmpl = geom.MultiImage({kp: jnp.zeros_like(m[kp]) for kp in m.keys()}, D, flags)
            # from_vector keeps the template's (== m's) order; the rebuild by append uses order pi
            def rebuild(pi=pi):
                o = m.empty()
                for kp in pi:
                    o.append(kp[0], kp[1], m[kp])
                return o

            out.append((f"append{pi}", rebuild))
        out.append(("from_vector", lambda: geom.MultiImage.from_vector(m.to_vector(), m)))
        if n_lead >= 1:
            ax = n_lead - 1
            if all(b.shape[ax] >= 2 for b in m.values()):
                def halves():
                    a = geom.MultiImage({kp: b[(slice(None),) * ax + (slice(0, 1),)] for kp, b in m.items()}, D, flags)
                    c = geom.MultiImage({kp: b[(slice(None),) * ax + (slice(1, None),)] for kp, b in m.items()}, D, flags)
                    return a.concat(c, axis=ax)

                out.append(("concat-halves", halves))
            if all(b.shape[ax] % 2 == 0 for b in m.values()):
                out.append(("expand-combine", lambda: m.expand(ax, 2).combine_axes((ax, ax + 1))))
        return out

    def explore(blocks):
        seen, frontier = {}, []
        for pi in perms:
            m = build(blocks, pi)
            k = canon(m, "construct")
            if k not in seen:
                seen[k] = m
                frontier.append((m, 0))
        while frontier:
            m, depth = frontier.pop(0)
            if depth >= case["depth"]:
                continue
            for name, thunk in ops(m):
                try:
                    m2 = thunk()
                except Exception as e:
                    bad(f"C12/history/{name.split('[')[0]}/exception", f"operation {name} raised {type(e).__name__}: {e}")
                    continue
                counters["transitions"] += 1
                # invariant in every state: contents by type unchanged
                if set(m2.keys()) != set(blocks) or any(not np.array_equal(np.asarray(m2[kp]), blocks[kp]) for kp in blocks) or m2.D != D or tuple(m2.is_torus) != flags:
                    bad(f"C12/history/{name.split('[')[0]}/contents", f"operation {name} changed the contents by type")
                    continue
                k = canon(m2, name.split("[")[0])
                if k not in seen:
                    seen[k] = m2
                    frontier.append((m2, depth + 1))
        return seen

    A = _contents(tset, lead, D, sp, 1)
    B = _contents(tset, lead, D, sp, 1000)
    SA, SB = explore(A), explore(B)
    nt_pairs = set()
    for ka, a in SA.items():
        # scalar operators on every state
        for s in (2, 0.5, np.float32(4.0)):
            r = a * s
            q = a / s
            counters["evals"] += 2
            for kp in A:
                if kp not in r or not np.array_equal(np.asarray(r[kp]), A[kp] * np.float32(s)):
                    bad("C12/mul", f"(a*{s})[{kp}] != a[{kp}]*{s} for storage order {ka[0]} after {ka[1]}")
                    break
                if kp not in q or not np.array_equal(np.asarray(q[kp]), A[kp] * np.float32(1.0 / s)):
                    bad("C12/div", f"(a/{s})[{kp}] != a[{kp}]/{s} for storage order {ka[0]} after {ka[1]}")
                    break
        for kb, b in SB.items():
            if ka[0] != kb[0]:
                nt_pairs.add((ka[0], kb[0]))
            try:
                s_, d_ = a + b, a - b
            except Exception as e:
                bad("C12/add/exception", f"a+b raised {type(e).__name__} for orders {ka[0]} / {kb[0]} (histories {ka[1]} / {kb[1]}): {e}")
                continue
            counters["evals"] += 2
            for kp in A:
                if kp not in s_ or np.asarray(s_[kp]).shape != A[kp].shape or not np.array_equal(np.asarray(s_[kp]), A[kp] + B[kp]):
                    bad("C12/add/pairing", f"(a+b)[{kp}] != a[{kp}]+b[{kp}] for storage orders {ka[0]} / {kb[0]} (histories {ka[1]} / {kb[1]})", a_order=[list(x) for x in ka[0]], b_order=[list(x) for x in kb[0]])
                    break
                if kp not in d_ or not np.array_equal(np.asarray(d_[kp]), A[kp] - B[kp]):
                    bad("C12/sub/pairing", f"(a-b)[{kp}] != a[{kp}]-b[{kp}] for storage orders {ka[0]} / {kb[0]}")
                    break
            if set(s_.keys()) != set(A):
                bad("C12/add/types", "a+b changed the type set")
            # equality: b vs a state of the same contents in another order; and against different contents
            if bool(a == b) is not False:
                bad("C12/eq/false-positive", f"a == b is True for different contents, orders {ka[0]} / {kb[0]}")
            if bool(a != b) is not True:
                bad("C12/ne", "a != b is not True for different contents")
            counters["evals"] += 2
        # operators must not modify their operands (aliasing / in-place updates): a is still what the history built
        if canon(a, ka[1]) != ka:
            bad("C12/operand-mutated", f"an operator changed its left operand (storage order {ka[0]}, history {ka[1]})")
        for ka2, a2 in SA.items():
            if bool(a == a2) is not True:
                bad("C12/eq/order-dependent", f"a == a' is False for equal contents stored as {ka[0]} / {ka2[0]} (histories {ka[1]} / {ka2[1]})")
            counters["evals"] += 1
    for kb, b in SB.items():
        if canon(b, kb[1]) != kb:
            bad("C12/operand-mutated", f"an operator changed its right operand (storage order {kb[0]}, history {kb[1]})")
    # the same operators traced by jax.jit, and on integer-typed blocks (values must agree; dtypes may promote)
    firsts_a = {}
    for ka, a in SA.items():
        firsts_a.setdefault(ka[0], a)
    firsts_b = {}
    for kb, b in SB.items():
        firsts_b.setdefault(kb[0], b)
    jadd = jax.jit(lambda x, y: (x + y, x - y, x * 3.0))
    for oa, a in firsts_a.items():
        for ob, b in firsts_b.items():
            s_, d_, m_ = jadd(a, b)
            counters["evals"] += 3
            for kp in A:
                if not np.array_equal(np.asarray(s_[kp]), A[kp] + B[kp]) or not np.array_equal(np.asarray(d_[kp]), A[kp] - B[kp]) or not np.array_equal(np.asarray(m_[kp]), A[kp] * 3):
                    bad("C12/jit/pairing", f"under jax.jit: (a+b, a-b, a*3)[{kp}] wrong for storage orders {oa} / {ob}")
                    break
            ai = geom.MultiImage({kp: jnp.asarray(A[kp].astype(np.int32)) for kp in oa}, D, flags)
            bi = geom.MultiImage({kp: jnp.asarray(B[kp].astype(np.int32)) for kp in ob}, D, flags)
            si, di, mi_ = ai + bi, ai - bi, ai * 2
            counters["evals"] += 3
            for kp in A:
                if not np.array_equal(np.asarray(si[kp]).astype(np.float64), (A[kp] + B[kp]).astype(np.float64)) or not np.array_equal(np.asarray(di[kp]).astype(np.float64), (A[kp] - B[kp]).astype(np.float64)) or not np.array_equal(np.asarray(mi_[kp]).astype(np.float64), (A[kp] * 2).astype(np.float64)):
                    bad("C12/int-blocks/pairing", f"integer-typed blocks: (a+b, a-b, a*2)[{kp}] wrong for storage orders {oa} / {ob}")
                    break
    # operands holding different type sets are rejected / unequal
    some_a = next(iter(SA.values()))
    for drop in keys:
        sub = geom.MultiImage({kp: jnp.asarray(B[kp]) for kp in keys if kp != drop}, D, flags)
        if len(sub.keys()) == 0:
            continue
        for op, f in (("+", lambda: some_a + sub), ("-", lambda: some_a - sub), ("+r", lambda: sub + some_a)):
            counters["evals"] += 1
            try:
                f()
                bad("C12/typeset/not-rejected", f"operands with different type sets were combined by {op} (dropped {drop})")
            except (AssertionError, KeyError, ValueError, TypeError):
                pass
        if bool(some_a == sub) is not False or bool(sub == some_a) is not False:
            bad("C12/typeset/eq", "multi-images with different type sets compare equal")
    # a renamed type (same shape, other parity) must not be combinable either
    for kp in keys:
        other = (kp[0], 1 - kp[1])
        if other in tset:
            continue
        ren = geom.MultiImage({(other if q == kp else q): jnp.asarray(B[q]) for q in keys}, D, flags)
        counters["evals"] += 1
        try:
            some_a + ren
            bad("C12/typeset/not-rejected", f"a + b accepted although b holds {other} instead of {kp}")
        except (AssertionError, KeyError, ValueError, TypeError):
            pass
        ren_same = geom.MultiImage({(other if q == kp else q): jnp.asarray(A[q]) for q in keys}, D, flags)
        if bool(some_a == ren) is not False or bool(some_a == ren_same) is not False or bool(ren_same == some_a) is not False:
            bad("C12/typeset/eq", "multi-images whose types differ only in parity compare equal")
    return {
        "violations": v,
        "nt": len(nt_pairs) > 0,
        "evals": counters["evals"],
        "states": len(SA) + len(SB),
        "transitions": counters["transitions"],
        "traces": len(SA) * len(SB),
        "key": f"{case['d']}/{case['types']}/{lead}",
        "outcome": f"{case['types']}/lead{lead}/states={len(SA)}",
    }


CLAIM = {
    "text": "Explicit-state BFS over all content-preserving operation sequences up to depth 2 (quick) / 3 (thorough) from every construction order, on the real MultiImage; every ordered pair of reachable operand states is fed to the real +,-,*,/,==,!= and compared exactly with a dict-of-arrays model on identifier data; mismatched type sets must be rejected.",
    "note": "Trusted: numpy dict-of-arrays model; canonical state hashing (key order, last op, D, flags, block bytes).",
    "technique": "explicit-state exploration of storage histories on the real object + differential oracle over all pairs of reachable states",
}
