"""C13 — re-layouts and serialisations of images and models are lossless round trips.

Histories: from every initial multi-image (d, signature, storage order, 0-3 leading axes with distinct sizes,
non-square extents) ALL sequences of forward re-layout operations up to a length bound are applied, then their
inverses in reverse order; the final state must equal the initial one exactly by type (with D and flags), every
intermediate state must preserve the multiset of entries and D/flags. Leaf round trips (vectorise, images,
GeometricImage pytree) are checked in every visited state. Save/load: every model class x mode x norm x bias.
"""
import itertools as it
import os
import tempfile

import numpy as np

from vlib.gj import viol

ID = "C13"
LEVEL = "model_checking"
DESIGN_REF = "DESIGN.md §4 C13"
RULE = (
    "one case per initial multi-image (d, signature, storage order, leading axes); DFS over all sequences of enabled "
    "forward operations {to_scalar, concat(axis, companion), expand(axis,size), expand twice + combine 3 axes, "
    "reshape_pmap(n), copy, jit, vmap} up to the depth bound; after each sequence the inverses are applied in reverse "
    "order and the result compared exactly with the initial state. states = multi-images visited, transitions = "
    "forward+inverse operations executed on the real object, traces = complete round-trip sequences. Non-trivial = "
    "sequence of length >= 1 on >= 2 types or >= 2 channels; distinct = distinct (case)."
)
ASSUMPTIONS = [
    "identifier integer data, float32 exact; comparison by type (jit/vmap legitimately re-sort the storage order)",
    "bounds: depth 2 quick / 3 thorough; k<=3 (d=2), k<=2 (d=3); channels 1..4; 0..3 leading axes",
    "from_vector is given a template in the same storage order as the vectorised multi-image (its documented use)",
    "save/load: small models only; one parameter key per structure",
]

SIGS = {
    1: [{(0, 0): 2}, {(0, 1): 1, (0, 0): 3}],
    2: [{(0, 0): 2}, {(1, 0): 1, (0, 0): 2}, {(0, 1): 1, (2, 0): 2, (1, 1): 3}, {(3, 1): 1, (0, 0): 4}, {(1, 0): 4, (1, 1): 2}],
    3: [{(1, 0): 2, (0, 1): 1}, {(2, 1): 1, (0, 0): 2, (1, 0): 3}],
}
EXT = {1: (3,), 2: (2, 3), 3: (2, 1, 3)}
LEADS = {0: (), 1: ("c",), 2: (5, "c"), 3: (2, 6, "c")}  # "c" = channel axis (per-type count)


def bounds(tier):
    return {
        "d": [1, 2, 3],
        "signatures": {d: [{str(k): c for k, c in s.items()} for s in SIGS[d]] for d in SIGS},
        "storage_orders": "every permutation (<=3 types)",
        "leading_axes": {k: list(map(str, v)) for k, v in LEADS.items()},
        "depth": 2 if tier == "quick" else 3,
        "forward_ops": ["to_scalar_multi_image", "concat(axis, companion)", "expand(axis,size)", "expand2+combine3", "reshape_pmap(n)", "copy", "jit", "vmap"],
        "leaf_round_trips": ["to_vector/from_vector", "to_images/from_images", "GeometricImage pytree (jit)", "tree_flatten/unflatten"],
        "save_load": "ConvContract, ConvBlock, UNet, ResNet, DilResNet, GroupAverage(ResNet) x {equivariant, conventional} x norm x bias",
    }


def cases(tier, seed):
    out = []
    depth = 2 if tier == "quick" else 3
    for d in (1, 2, 3):
        for si, sig in enumerate(SIGS[d]):
            orders = list(it.permutations(sorted(sig)))
            if tier == "quick" and len(orders) > 2:
                orders = [orders[0], orders[-1], orders[len(orders) // 2]]
            for oi, order in enumerate(orders):
                for lead in (0, 1, 2, 3):
                    if tier == "quick" and lead == 3 and (d == 3 or si > 1):
                        continue
                    out.append({"kind": "layout", "d": d, "sig": si, "order": [list(k) for k in order], "lead": lead, "depth": depth, "cost": 1 + lead * 2})
    out.append({"kind": "history", "cost": 5})
    models = ["ConvContract", "ConvBlock", "UNet", "ResNet", "DilResNet", "GroupAverage"]
    for m in models:
        for eq in (True, False):
            if m == "ConvContract" and not eq:
                continue
            for norm in (False, True):
                for bias in ("auto", False) if tier == "quick" else ("auto", False, "mean", True):
                    if not eq and bias not in ("auto", False, True):
                        continue
                    out.append({"kind": "saveload", "model": m, "equivariant": eq, "norm": norm, "bias": bias, "cost": 6, "grp": f"saveload/{m}"})
    return out


def _mk_blocks(sig, order, lead, D, sp, base=1):
    blocks = {}
    off = base
    for kp in order:
        c = sig[kp]
        shape = tuple(c if x == "c" else x for x in LEADS[lead]) + sp + (D,) * kp[0]
        n = int(np.prod(shape))
        blocks[kp] = (np.arange(n, dtype=np.float32) + off).reshape(shape)
        off += n + 13
    return blocks


def _layout(case):
    import jax
    import jax.numpy as jnp
    import ginjax.geometric as geom

    D, lead = case["d"], case["lead"]
    sig = SIGS[D][case["sig"]]
    order = [tuple(k) for k in case["order"]]
    sp = EXT[D]
    flags = tuple(i % 2 == 0 for i in range(D))
    v = []
    cnt = {"states": 0, "transitions": 0, "traces": 0, "evals": 0}

    def bad(fp, msg, **d):
        if len(v) < 5:
            v.append(viol(fp, msg, case=case, **d))

    def same(m, blocks, what, fp):
        """exact equality by type with D and flags"""
        if set(m.keys()) != set(blocks):
            bad(fp + "/types", f"{what}: types {list(m.keys())} != {list(blocks)}")
            return False
        for kp in blocks:
            a = np.asarray(m[kp])
            if a.shape != blocks[kp].shape or not np.array_equal(a, blocks[kp]):
                bad(fp + "/values", f"{what}: block {kp} differs (shape {a.shape} vs {blocks[kp].shape})")
                return False
        if m.D != D or tuple(m.is_torus) != flags:
            bad(fp + "/meta", f"{what}: D/flags changed to {m.D}/{m.is_torus}")
            return False
        return True

    def snapshot(m):
        return {kp: np.asarray(b) for kp, b in m.items()}

    def entries(blocks):
        return np.sort(np.concatenate([b.ravel() for b in blocks.values()])) if blocks else np.zeros(0)

    def leaf_checks(m, tag):
        """round trips that do not produce a multi-image, checked in every visited state"""
        snap = snapshot(m)
        nl = m.get_n_leading()
        # vectorise / de-vectorise (template: zeros in the same storage order)
        tmpl = geom.MultiImage({kp: jnp.zeros_like(b) for kp, b in m.items()}, D, flags)
        vec = m.to_vector()
        cnt["evals"] += 1
        if vec.shape != (sum(b.size for b in snap.values()),):
            bad("C13/vector/shape", f"{tag}: to_vector shape {vec.shape}")
        else:
            same(geom.MultiImage.from_vector(vec, tmpl), snap, f"{tag}: from_vector(to_vector(m))", "C13/vector")
        if m.size() != sum(b.size for b in snap.values()):
            bad("C13/size", f"{tag}: size() wrong")
        # pytree flatten / unflatten
        leaves, treedef = jax.tree_util.tree_flatten(m)
        same(jax.tree_util.tree_unflatten(treedef, leaves), snap, f"{tag}: tree_unflatten(tree_flatten(m))", "C13/pytree")
        cnt["evals"] += 1
        # images and back
        imgs = m.to_images()
        cnt["evals"] += 1
        nimg = sum(int(np.prod(b.shape[:nl])) for b in snap.values())
        if len(imgs) != nimg:
            bad("C13/images/count", f"{tag}: to_images gave {len(imgs)} images, expected {nimg}")
        else:
            back = geom.MultiImage.from_images(imgs, n_lead_axes=min(nl, 1), axis=0)
            flat = {kp: b.reshape(((-1,) if nl >= 1 else ()) + b.shape[nl:]) for kp, b in snap.items()}
            same(back, flat, f"{tag}: from_images(to_images(m))", "C13/images")
            for im in imgs[:2]:
                if im.D != D or tuple(im.is_torus) != flags:
                    bad("C13/images/meta", f"{tag}: to_images lost D/flags")
                # GeometricImage through jit keeps data, parity, D, flags
                j = jax.jit(lambda z: z)(im)
                cnt["evals"] += 1
                if not np.array_equal(np.asarray(j.data), np.asarray(im.data)) or (j.parity, j.D, tuple(j.is_torus), j.k) != (im.parity, im.D, tuple(im.is_torus), im.k):
                    bad("C13/pytree/GeometricImage", f"{tag}: GeometricImage changed by a jit round trip")

    def forward_ops(m):
        """enabled forward operations in state m: list of (name, apply, inverse, fingerprint)"""
        ops = []
        nl = m.get_n_leading()
        snap = snapshot(m)
        ops.append(("copy", lambda: m.copy(), lambda r: r, "copy"))
        if nl >= 1:
            # accumulation idiom of the library's own loops: start from the empty multi-image and concatenate onto it
            ops.append(("empty.concat", lambda: m.empty().concat(m, axis=nl - 1), lambda r: r, "concat/onto-empty"))
            ops.append(("concat.empty", lambda: m.concat(m.empty(), axis=nl - 1), lambda r: r, "concat/empty-operand"))
        ops.append(("jit", lambda: jax.jit(lambda z: z)(m), lambda r: r, "jit"))
        if nl >= 1 and len({b.shape[0] for b in snap.values()}) == 1:
            ops.append(("vmap", lambda: jax.vmap(lambda z: z)(m), lambda r: r, "vmap"))
        if nl >= 1 and len({b.shape[: nl - 1] for b in snap.values()}) == 1:  # blocks must share the batch axes
            layout = m.get_signature()
            ops.append(("to_scalar", lambda: m.to_scalar_multi_image(), lambda r, layout=layout: r.from_scalar_multi_image(layout), "scalar"))
        for ax in range(nl):
            # companion: the first type only (so one type is extended, the others untouched) and a full-signature one
            for which, keys in (("sub", list(snap)[:1]), ("all", list(snap)[::-1])):
                comp_blocks = {}
                for j, kp in enumerate(keys):
                    shp = list(snap[kp].shape)
                    shp[ax] = 1 + j
                    comp_blocks[kp] = (np.arange(int(np.prod(shp)), dtype=np.float32) + 9000 + 100 * j).reshape(shp)
                comp = geom.MultiImage({kp: jnp.asarray(b) for kp, b in comp_blocks.items()}, D, flags)
                sizes = {kp: b.shape[ax] for kp, b in comp_blocks.items()}

                def inv(r, ax=ax, sizes=sizes, comp_blocks=comp_blocks, which=which):
                    a, b = r.concat_inverse(sizes, axis=ax)
                    same(b, comp_blocks, f"concat_inverse(axis={ax}) second part", f"C13/concat/{which}/split-b")
                    # also through the Signature-tuple form when the axis is the channel axis
                    if ax == r.get_n_leading() - 1:
                        a2, _ = r.concat_inverse(geom.Signature(tuple(sizes.items())), axis=ax)
                        if set(a2.keys()) != set(a.keys()) or any(not np.array_equal(np.asarray(a2[k]), np.asarray(a[k])) for k in a.keys()):
                            bad("C13/concat/signature-form", "concat_inverse differs between dict and Signature argument")
                    # a split signature may also list a type with 0 channels (nothing of that type was appended)
                    zsizes = {kp: sizes.get(kp, 0) for kp in r.keys()}
                    a3, b3 = r.concat_inverse(zsizes, axis=ax)
                    if set(a3.keys()) != set(a.keys()) or any(np.asarray(a3[k]).shape != np.asarray(a[k]).shape or not np.array_equal(np.asarray(a3[k]), np.asarray(a[k])) for k in a.keys()) or set(b3.keys()) != set(b.keys()):
                        bad("C13/concat/zero-size-entry", f"concat_inverse with explicit zero-size entries {zsizes} splits differently than with those types omitted")
                    return a

                ops.append((f"concat[{ax},{which}]", lambda comp=comp, ax=ax: m.concat(comp, axis=ax), inv, f"concat/{which}"))
            sizes_ax = {b.shape[ax] for b in snap.values()}
            for size in (2, 3):
                if all(s % size == 0 and s > size for s in sizes_ax) or all(s % size == 0 for s in sizes_ax) and size == 2:
                    ops.append((f"expand[{ax},{size}]", lambda ax=ax, size=size: m.expand(ax, size), lambda r, ax=ax: r.combine_axes((ax, ax + 1)), "expand-combine"))
                    ops.append((f"expandM[{ax},{size}]", lambda ax=ax, size=size: m.expand(ax, size), lambda r, ax=ax: r.merge_axes([ax, ax + 1]), "expand-merge"))
            if all(s % 4 == 0 for s in sizes_ax) or all(s % 6 == 0 for s in sizes_ax):
                s2 = 2
                s1 = 2 if all(s % 4 == 0 for s in sizes_ax) else 3
                ops.append((f"expand2[{ax}]", lambda ax=ax, s1=s1, s2=s2: m.expand(ax, s1).expand(ax, s2), lambda r, ax=ax: r.combine_axes((ax, ax + 1, ax + 2)), "expand2-combine3"))
                ops.append((f"expand2M[{ax}]", lambda ax=ax, s1=s1, s2=s2: m.expand(ax, s1).expand(ax, s2), lambda r, ax=ax: r.merge_axes([ax, ax + 1, ax + 2]), "expand2-merge3"))
        if nl >= 1 and len({b.shape[0] for b in snap.values()}) == 1:
            L = next(iter(snap.values())).shape[0]
            for ndev in (1, 2, 3):
                if L % ndev == 0 and (ndev > 1 or L > 1):
                    ops.append((f"pmap[{ndev}]", lambda ndev=ndev: m.reshape_pmap([None] * ndev), lambda r: r.merge_axes([0, 1]), "pmap-merge"))
        return ops

    init_blocks = _mk_blocks(sig, order, lead, D, sp)
    m0 = geom.MultiImage({kp: jnp.asarray(init_blocks[kp]) for kp in order}, D, flags)
    ent0 = entries(init_blocks)
    leaf_checks(m0, "initial")
    cnt["states"] += 1
    nontrivial = [False]

    def rec(m, inverses, names, depth):
        if depth == case["depth"]:
            return
        pre = snapshot(m)
        pre_order = list(m.keys())
        for name, apply, inv, fp in forward_ops(m) + [("__check_unchanged__", None, None, None)]:
            if apply is None:
                # once per visited state, after every operation was applied to it: the state itself is unchanged
                if list(m.keys()) != pre_order or any(not np.array_equal(np.asarray(m[k]), pre[k]) for k in pre_order):
                    bad("C13/operand-mutated", f"{names}: a re-layout operation modified the multi-image it was applied to")
                continue
            try:
                m2 = apply()
            except Exception as e:
                bad(f"C13/{fp}/exception", f"{names + [name]}: forward op raised {type(e).__name__}: {e}")
                continue
            cnt["transitions"] += 1
            cnt["states"] += 1
            seq = names + [name]
            if depth == 0:
                # the result must be a multi-image of its own: changing a second, separately computed result in place
                # (the documented in-place operations append / item assignment) must not reach the operand, otherwise the
                # inverse of the accumulated result is judged against an operand that has silently changed. The
                # "__check_unchanged__" step below compares the operand with its snapshot.
                try:
                    m3 = apply()
                    k3 = list(m3.keys())[0]
                    blk3 = m3[k3]
                    nl3 = m3.get_n_leading()
                    if nl3 >= 1:
                        m3.append(k3[0], k3[1], blk3, axis=nl3 - 1)
                    m3[list(m3.keys())[-1]] = jnp.zeros_like(m3[list(m3.keys())[-1]])
                    cnt["evals"] += 1
                except Exception as e:
                    bad(f"C13/{fp}/alias-probe-exception", f"{seq}: in-place update of the result raised {type(e).__name__}: {e}")
            # invariant in every intermediate state: D, flags; entries preserved (concat adds the companion's)
            if m2.D != D or tuple(m2.is_torus) != flags:
                bad(f"C13/{fp}/meta", f"{seq}: D/flags changed")
            snap2 = snapshot(m2)
            if not name.startswith("concat") and not any(n.startswith("concat") for n in names):
                if not np.array_equal(entries(snap2), ent0):
                    bad(f"C13/{fp}/entries", f"{seq}: the multiset of entries changed")
            if depth + 1 <= 1 or name in ("to_scalar",):
                leaf_checks(m2, str(seq))
            # unwind: inverses in reverse order
            r = m2
            ok = True
            for iname, iv in [(name, inv)] + inverses:
                try:
                    r = iv(r)
                except Exception as e:
                    bad(f"C13/{fp}/inverse-exception", f"{seq}: inverse of {iname} raised {type(e).__name__}: {e}")
                    ok = False
                    break
                cnt["transitions"] += 1
            cnt["traces"] += 1
            cnt["evals"] += 1
            if ok:
                same(r, init_blocks, f"round trip {seq}", f"C13/{fp}/roundtrip")
            nontrivial[0] = nontrivial[0] or (len(init_blocks) >= 2 or max(sig.values()) >= 2)
            rec(m2, [(name, inv)] + inverses, seq, depth + 1)

    rec(m0, [], [], 0)
    return {
        "violations": v,
        "nt": nontrivial[0],
        "evals": cnt["evals"],
        "states": cnt["states"],
        "transitions": cnt["transitions"],
        "traces": cnt["traces"],
        "outcome": f"d{D}/lead{lead}/types{len(order)}",
    }


def _saveload(case):
    import equinox as eqx
    import jax
    import jax.numpy as jnp
    import jax.random as random
    import ginjax.geometric as geom
    import ginjax.ml as ml
    import ginjax.models as models

    D = 2
    v = []
    ops = geom.make_all_operators(D)
    filters = geom.get_invariant_filters([3], [0, 1, 2], [0, 1], D, ops)
    up_filters = geom.get_invariant_filters([2], [0, 1, 2], [0, 1], D, ops)
    in_keys = geom.Signature((((0, 0), 1), ((1, 0), 1)))
    out_keys = geom.Signature((((0, 0), 1), ((1, 0), 1)))
    eq, norm, bias = case["equivariant"], case["norm"], case["bias"]

    def build(key):
        if case["model"] == "ConvContract":
            return ml.ConvContract(in_keys, out_keys, filters, use_bias=bias, key=key)
        if case["model"] == "ConvBlock":
            if eq:
                return models.ConvBlock(D, in_keys, out_keys, bias, "gelu", True, filters, None, norm, key=key)
            s = geom.Signature((((0, 0), 3),))
            return models.ConvBlock(D, s, s, bias, "gelu", False, None, 3, norm, key=key)
        kw = dict(equivariant=eq, conv_filters=filters if eq else None, kernel_size=None if eq else 3, use_group_norm=norm, use_bias=bias, key=key)
        if case["model"] == "UNet":
            return models.UNet(D, in_keys, out_keys, depth=2, num_downsamples=1, num_conv=1, upsample_filters=up_filters if eq else None, **kw)
        if case["model"] == "ResNet":
            return models.ResNet(D, in_keys, out_keys, depth=2, num_blocks=1, num_conv=1, **kw)
        if case["model"] == "GroupAverage":
            inner = models.ResNet(D, in_keys, out_keys, depth=2, num_blocks=1, num_conv=1, **kw)
            return models.GroupAverage(inner, [np.array(g) for g in geom.make_C2_group(D)], always_average=True)
        return models.DilResNet(D, in_keys, out_keys, depth=2, num_blocks=1, **kw)

    a, b = build(random.PRNGKey(1)), build(random.PRNGKey(2))
    if case["model"] == "GroupAverage":
        # same structure, but the template's non-array leaves (flags) differ from the saved model's
        b = models.GroupAverage(b.model, b.operators, always_average=False, inference=False)
    # perturb every parameter of `a` away from its initial value (zeros/ones must not hide a dropped leaf)
    leaves, treedef = jax.tree_util.tree_flatten(a)
    k = random.PRNGKey(3)
    new = []
    for i, l in enumerate(leaves):
        if eqx.is_inexact_array(l):
            k, sk = random.split(k)
            new.append(l + 0.25 * random.normal(sk, l.shape))
        else:
            new.append(l)
    a = jax.tree_util.tree_unflatten(treedef, new)
    if case["model"] == "ConvBlock" and not eq:
        x = geom.MultiImage({(0, 0): random.normal(random.PRNGKey(4), (3, 4, 4))}, D)
    else:
        x = geom.MultiImage({(0, 0): random.normal(random.PRNGKey(4), (1, 4, 4)), (1, 0): random.normal(random.PRNGKey(5), (1, 4, 4, 2))}, D)
    call = (lambda m: m(x)) if case["model"] == "ConvContract" else (lambda m: m(x)[0])
    with tempfile.TemporaryDirectory() as td:
        fn = os.path.join(td, "model.eqx")
        ml.save(fn, a)
        c = ml.load(fn, b)
    la, lc = jax.tree_util.tree_leaves(a), jax.tree_util.tree_leaves(c)
    if len(la) != len(lc):
        v.append(viol("C13/saveload/structure", "loaded model has a different number of leaves", case=case))
    else:
        for i, (p, q) in enumerate(zip(la, lc)):
            if eqx.is_array(p):
                if not eqx.is_array(q) or p.shape != q.shape or not np.array_equal(np.asarray(p), np.asarray(q)):
                    v.append(viol("C13/saveload/leaf", f"leaf {i} differs after load(save(m))", case=case))
                    break
    oa, oc, ob = call(a), call(c), call(b)
    for kp in oa.keys():
        if kp not in oc or not np.array_equal(np.asarray(oa[kp]), np.asarray(oc[kp])):
            v.append(viol("C13/saveload/output", f"output block {kp} of the loaded model is not bit-identical", case=case))
            break
    differs = any(not np.array_equal(np.asarray(oa[kp]), np.asarray(ob[kp])) for kp in oa.keys())
    return {"violations": v, "nt": bool(differs), "evals": 1, "states": 2, "transitions": 2, "traces": 1, "outcome": f"saveload/{case['model']}/eq={eq}"}


def _history(case):
    """the same signature re-laid-out at different D (and leading-axis counts) within ONE process, in both orders:
    module-level tables keyed by the signature alone would go stale"""
    import jax.numpy as jnp
    import ginjax.geometric as geom

    v = []
    n = 0
    sigs = [[((1, 0), 2), ((0, 0), 1)], [((0, 0), 2), ((1, 1), 1), ((2, 0), 1)], [((1, 0), 1), ((1, 1), 3)]]
    for sig in sigs:
        for seq in ((2, 3, 2), (3, 2, 3)):
            for D in seq:
                for lead in (1, 2):
                    sp = EXT[D]
                    blocks = {}
                    off = 1
                    for kp, c in sig:
                        shape = ((4,) if lead == 2 else ()) + (c,) + sp + (D,) * kp[0]
                        blocks[kp] = (np.arange(int(np.prod(shape)), dtype=np.float32) + off).reshape(shape)
                        off += 500
                    m = geom.MultiImage({kp: jnp.asarray(b) for kp, b in blocks.items()}, D, True)
                    back = m.to_scalar_multi_image().from_scalar_multi_image(m.get_signature())
                    vec = geom.MultiImage.from_vector(m.to_vector(), m)
                    n += 2
                    for name, r in (("scalar", back), ("vector", vec)):
                        if set(r.keys()) != set(blocks) or any(np.asarray(r[kp]).shape != blocks[kp].shape or not np.array_equal(np.asarray(r[kp]), blocks[kp]) for kp in blocks):
                            v.append(viol(f"C13/history/{name}", f"{name} round trip of signature {sig} at D={D} fails after the same signature was used at the other D in this process (sequence {seq})", case=case))
                            break
                if v:
                    break
            if v:
                break
        if v:
            break
    return {"violations": v[:3], "nt": True, "evals": n, "states": n, "transitions": 2 * n, "traces": n, "outcome": "history"}


def run_case(case, seed):
    if case["kind"] == "history":
        return _history(case)
    return _layout(case) if case["kind"] == "layout" else _saveload(case)


CLAIM = {
    "text": "All sequences of re-layout operations up to depth 2 (quick) / 3 (thorough) from every initial multi-image in the alphabet are executed on the real MultiImage, unwound with the inverse operations in reverse order and compared exactly with the start; leaf round trips (vector, images, pytrees) in the visited states; save/load over model classes, modes, norm and bias settings with perturbed parameters, bit-identical leaves and outputs.",
    "note": "Trusted: numpy comparison on identifier data. Sequences longer than the bound, >3 leading axes, k>3 are not explored.",
    "technique": "bounded-exhaustive exploration of operation sequences (forward ops then inverses) on the real object with an exact round-trip oracle",
}
