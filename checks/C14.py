"""C14 — no cross-talk between batch entries, channels or tensor types.

(A) Per-image multi-image operations (group action, pixel norm, average pooling, component selection, conversion
to single images): for every signature in EVERY storage order, 0-3 leading axes of pairwise distinct sizes, d in
{1,2,3}, the result at [batch..., channel] must equal the single-image operation on that image (identifier data).
(B) Layers and models (equivariant and conventional, group norm on) under jax.vmap: entry i of the batched result
equals the model applied to entry i alone, and is bit-identical when the OTHER entries of the batch are permuted,
replaced by zeros, or replaced by 1e3 * noise — for every position i and sorted / unsorted storage order.
"""
import itertools as it

import numpy as np

from checks import _models as MD
from vlib.gj import viol, rng_for
from vlib.ref import group as G

ID = "C14"
LEVEL = "exploration"
DESIGN_REF = "DESIGN.md §4 C14"
RULE = (
    "(A) one case per (d, signature, storage order, number of leading axes): every image of the multi-image is "
    "compared with the single-image operation. (B) one case per (layer/model, mode, storage order): every batch "
    "position x every replacement of the other entries. evaluations = per-image / per-entry comparisons. "
    "Non-trivial = at least 2 images or 2 batch entries with different content; distinct = case."
)
ASSUMPTIONS = [
    "identifier / small-integer data for the per-image operations (exact; norm 1e-6)",
    "vmap(f)(X)[i] vs f(X[i]) within 1e-5 relative; independence from the other entries is compared bit for bit between two vmapped runs",
    "batch norm (which mixes entries by design) is outside the alphabet",
    "L2: d<=3, k<=2, <=3 leading axes, batch size 3",
]

SIGS = {
    1: [[((0, 0), 2), ((0, 1), 1)]],
    2: [[((0, 0), 2), ((1, 0), 3)], [((1, 1), 1), ((0, 1), 2), ((2, 0), 1)]],
    3: [[((1, 0), 2), ((0, 0), 1)]],
}
EXT = {1: (6,), 2: (4, 6), 3: (2, 4, 2)}
LEADS = {0: (), 1: ("c",), 2: (5, "c"), 3: (3, 5, "c")}
LAYERS = ["ConvContract", "GroupNorm", "VN", "MaxNormPool", "ConvBlock", "ResNet", "UNet", "ResNet-conv", "UNet-conv", "DilResNet-conv", "losses"]


def bounds(tier):
    return {
        "per_image_ops": ["times_group_element", "norm", "average_pool", "get_component", "batch_get_component", "to_images"],
        "d": [1, 2, 3],
        "signatures": {d: [str(s) for s in SIGS[d]] for d in SIGS},
        "storage_orders": "every permutation",
        "leading_axes": {k: [str(x) for x in v] for k, v in LEADS.items()},
        "vmapped": LAYERS,
        "batch_replacements": ["permute others", "zero others", "1e3*noise others"],
    }


def cases(tier, seed):
    out = []
    for d in (1, 2, 3):
        for si, sig in enumerate(SIGS[d]):
            for order in it.permutations(range(len(sig))):
                for lead in (0, 1, 2, 3):
                    out.append({"kind": "ops", "d": d, "sig": si, "order": list(order), "lead": lead, "cost": 1 + lead})
    for layer in LAYERS:
        for unsorted in (False, True):
            out.append({"kind": "vmap", "layer": layer, "unsorted": unsorted, "cost": 12, "grp": f"vmap/{layer}"})
    return out


def _ops_case(case):
    import jax.numpy as jnp
    import ginjax.geometric as geom

    D, lead = case["d"], case["lead"]
    sig = [SIGS[D][case["sig"]][i] for i in case["order"]]
    sp = EXT[D]
    flags = tuple(i % 2 == 0 for i in range(D))
    v = []
    evals = 0

    def bad(fp, msg):
        if len(v) < 5:
            v.append(viol(fp, msg, case=case))

    blocks = {}
    off = 1
    for kp, c in sig:
        shape = tuple(c if x == "c" else x for x in LEADS[lead]) + sp + (D,) * kp[0]
        n = int(np.prod(shape))
        blocks[kp] = ((np.arange(n, dtype=np.float32) * 7 + off) % 23 - 11).reshape(shape)
        off += 5
    m = geom.MultiImage({kp: jnp.asarray(blocks[kp]) for kp, _ in sig}, D, flags)
    lead_shapes = {kp: blocks[kp].shape[:lead] for kp in blocks}

    def single(kp, idx):
        return geom.GeometricImage(jnp.asarray(blocks[kp][idx]), kp[1], D, flags)

    # ---- group action
    B = G.Bd(D)
    gs = B if D < 3 else [B[1], B[9], B[20], B[33], B[47]]
    for g in gs:
        r = m.times_group_element(np.array(g))
        for kp in blocks:
            for idx in it.product(*[range(n) for n in lead_shapes[kp]]):
                evals += 1
                exp = np.asarray(single(kp, idx).times_group_element(np.array(g)).data)
                if not np.array_equal(np.asarray(r[kp])[idx], exp):
                    bad("C14/times_group_element", f"block {kp} entry {idx}: multi-image action != single-image action for g={np.array(g).tolist()}")
                    break
    # ---- norm (needs a channel axis)
    if lead >= 1:
        r = np.asarray(m.norm()[(0, 0)])
        offc = 0
        for kp, c in sig:
            for idx in it.product(*[range(n) for n in lead_shapes[kp]]):
                evals += 1
                exp = np.asarray(single(kp, idx).norm().data)
                tgt = idx[:-1] + (offc + idx[-1],)
                if r.shape[:lead] != lead_shapes[kp][:-1] + (sum(c_ for _, c_ in sig),) or not np.allclose(r[tgt], exp, rtol=1e-6, atol=1e-6):
                    bad("C14/norm", f"norm: channel {tgt} is not the pixel norm of block {kp} entry {idx} (lead={lead})")
                    break
            offc += c
    # ---- norm with very unequal entries: one entry (first index of the first leading axis) is 1e25 times larger in
    #      float32, resp. 1e3 times larger in a float16 multi-image; every OTHER entry's norm must still be what the
    #      single-image norm of that image gives (same dtype, same arithmetic) — no entry may set the scale for another
    if lead >= 1:
        for dt, big, rt in ((np.float32, 1e25, 1e-6), (np.float16, 512.0, 2e-3)):
            scaled = {}
            for kp in blocks:
                b = (blocks[kp] / 16.0).astype(dt)
                b[0] = (b[0].astype(np.float64) * big).astype(dt)
                scaled[kp] = b
            ms = geom.MultiImage({kp: jnp.asarray(scaled[kp]) for kp, _ in sig}, D, flags)
            r = np.asarray(ms.norm()[(0, 0)]).astype(np.float64)
            offc = 0
            for kp, c in sig:
                for idx in it.product(*[range(n) for n in lead_shapes[kp]]):
                    if idx[0] == 0:
                        continue
                    evals += 1
                    exp = np.asarray(geom.GeometricImage(jnp.asarray(scaled[kp][idx]), kp[1], D, flags).norm().data).astype(np.float64)
                    tgt = idx[:-1] + (offc + idx[-1],)
                    if not np.allclose(r[tgt], exp, rtol=rt, atol=rt * 1e-2):
                        bad(f"C14/norm/unequal-entries/{np.dtype(dt).name}", f"norm: channel {tgt} (block {kp} entry {idx}) changes when ANOTHER entry is {big:g} times larger ({np.dtype(dt).name}): max deviation {float(np.max(np.abs(r[tgt] - exp))):.3g}")
                        break
                offc += c
    # ---- average pooling
    if D >= 2:
        r = m.average_pool(2)
        for kp in blocks:
            for idx in it.product(*[range(n) for n in lead_shapes[kp]]):
                evals += 1
                exp = np.asarray(single(kp, idx).average_pool(2).data)
                got = np.asarray(r[kp])[idx]
                if got.shape != exp.shape or not np.array_equal(got, exp):
                    bad("C14/average_pool", f"average_pool: block {kp} entry {idx} != single-image average pool")
                    break
    # ---- conversion to single images (storage order, flattened leading axes)
    imgs = m.to_images()
    j = 0
    for kp, c in sig:
        for idx in it.product(*[range(n) for n in lead_shapes[kp]]):
            evals += 1
            if j >= len(imgs) or not np.array_equal(np.asarray(imgs[j].data), blocks[kp][idx]) or (imgs[j].k, imgs[j].parity) != (kp[0], kp[1] % 2):
                bad("C14/to_images", f"to_images: image {j} is not block {kp} entry {idx}")
                break
            j += 1
    # ---- component selection: batched == per entry, for every component and a slice
    if lead in (1, 2) and D >= 1:
        steps = 1
        ncomp = sum(c * D ** kp[0] for kp, c in sig)
        comps = list(range(ncomp)) + [slice(0, 2), slice(1, ncomp)]
        if lead == 1:
            # closed form: component i is (type, channel c, tensor component j) with i = offset(type) + c*D^k + j, types
            # in sorted (k,parity) order (the order every jit/vmap pass produces); with `steps` time steps per channel
            for steps_ in (1, 2):
                if any(c % steps_ for _, c in sig):
                    continue
                i_ = 0
                for kp, c in sorted(sig):
                    for ch in range(c // steps_):
                        for j_ in range(D ** kp[0]):
                            got = np.asarray(m.get_component(i_, steps_)[(0, 0)])
                            blk = blocks[kp].reshape((c // steps_, steps_) + sp + (-1,))
                            exp = blk[ch, :, ..., j_]
                            evals += 1
                            if got.shape != exp.shape or not np.array_equal(got, exp):
                                bad(f"C14/get_component/closed-form/k={kp[0]}", f"get_component({i_}, future_steps={steps_}) is not channel {ch} component {j_} of block {kp}")
                            i_ += 1
            seen = []
            for c_ in range(ncomp):
                seen.append(np.asarray(m.get_component(c_, steps)[(0, 0)]))
                evals += 1
            allv = np.sort(np.concatenate([s.ravel() for s in seen]))
            inv = np.sort(np.concatenate([b.ravel() for b in blocks.values()]))
            if allv.shape != inv.shape or not np.array_equal(allv, inv):
                bad("C14/get_component/partition", "the components do not partition the entries of the multi-image")
        else:
            for c_ in comps:
                bat = np.asarray(m.batch_get_component(c_, steps)[(0, 0)])
                for b in range(5):
                    evals += 1
                    one = np.asarray(m.get_one(b, keepdims=False).get_component(c_, steps)[(0, 0)])
                    if bat[b].shape != one.shape or not np.array_equal(bat[b], one):
                        bad("C14/batch_get_component/" + ("unsorted" if [kp for kp, _ in sig] != sorted(kp for kp, _ in sig) else "sorted"), f"batch_get_component({c_})[{b}] != get_one({b}).get_component({c_}) for storage order {[kp for kp, _ in sig]}")
                        break
    nimg = sum(int(np.prod(s)) for s in lead_shapes.values())
    return {"violations": v, "nt": nimg >= 2, "evals": evals, "outcome": f"ops/d{D}/lead{lead}/types{len(sig)}"}


def _vmap_case(case, seed):
    import equinox as eqx
    import jax
    import jax.numpy as jnp
    import jax.random as random
    import ginjax.geometric as geom
    import ginjax.ml as ml
    from vlib import mlh

    D = 2
    sp = (4, 4)
    name = case["layer"]
    rng = rng_for(seed, "C14", repr(sorted(case.items())))
    in_sig = [((0, 0), 2), ((1, 0), 2)]
    order = [(1, 0), (0, 0)] if case["unsorted"] else [(0, 0), (1, 0)]
    conv = name.endswith("-conv")
    if name == "losses":
        return _loss_case(case, seed)
    if name == "ConvContract":
        bank_mi, _, _ = mlh.bank(D, "B_M3_normalize")
        layer = ml.ConvContract(mlh.sig_tuple(in_sig), mlh.sig_tuple(in_sig), bank_mi, key=random.PRNGKey(0))
        f = lambda x: layer(x)
    elif name == "GroupNorm":
        layer = mlh.perturb_model(ml.GroupNorm(mlh.sig_tuple(in_sig), D, 2), rng, 0.3)
        f = lambda x: layer(x)
    elif name == "VN":
        layer = ml.VectorNeuronNonlinear(mlh.sig_tuple(in_sig), D, jax.nn.gelu, key=random.PRNGKey(0))
        f = lambda x: layer(x)
    elif name == "MaxNormPool":
        layer = ml.MaxNormPool(2)
        f = lambda x: layer(x)
    else:
        spec = {"d": D, "cls": name.replace("-conv", ""), "sig": "vs-unsorted" if case["unsorted"] else "sv", "depth": 2, "size": 1, "num_conv": 1, "norm": True, "bias": "auto", "equivariant": not conv, "act": "gelu"}
        model, in_sig, _, _ = MD.build(spec)
        model = mlh.perturb_model(model, rng, 0.2)
        order = [tuple(kp) for kp, _ in in_sig]
        if case["unsorted"] and order == sorted(order):
            order = order[::-1]
        f = lambda x: model(x)[0]
    v = []
    evals = 0

    def bad(fp, msg):
        if len(v) < 5:
            v.append(viol(fp, msg, case=case))

    Bn = 3

    def draw():
        # U-Nets pool by arg-max of the pixel norm: draw entries whose pooled patches have a unique maximum by a 1e-3
        # relative margin (premise of max pooling, see C08), so rounding differences between the batched and the
        # un-batched execution cannot flip an arg-max
        for _ in range(8):
            e = mlh.make_input(in_sig, D, sp, rng, integer=False)
            if "UNet" not in name:
                return e
            with mlh.Monitor() as mon:
                f(mlh.to_mi(e, D, True, order=order))
                if mon.take_pool_margin() > 1e-3:
                    return e
        return None

    entries = [draw() for _ in range(Bn)]
    if any(e is None for e in entries):
        return {"status": "disabled", "note": "max-pool uniqueness premise fails on 8 generic inputs"}

    def stack(es):
        return geom.MultiImage({kp: jnp.asarray(np.stack([e[kp] for e in es])) for kp in order}, D, True)

    vf = jax.vmap(f)
    base = mlh.np_blocks(vf(stack(entries)))
    worst = 0.0
    for i in range(Bn):
        alone = mlh.np_blocks(f(mlh.to_mi(entries[i], D, True, order=order)))
        evals += 1
        for t in alone:
            e = mlh.relerr(base[t][i], alone[t]) if t in base else np.inf
            worst = max(worst, e if np.isfinite(e) else 0.0)
            if e > 1e-5:
                bad(f"C14/vmap-vs-single/{name}/" + ("unsorted" if case["unsorted"] else "sorted"), f"{name}: vmap(f)(X)[{i}] != f(X[{i}]) on block {t} (relative {e:.2e}, storage order {order})")
                break
        others = [j for j in range(Bn) if j != i]
        variants = {
            "permute": [entries[i] if j == i else entries[others[(others.index(j) + 1) % len(others)]] for j in range(Bn)],
            "zeros": [entries[i] if j == i else {kp: np.zeros_like(b) for kp, b in entries[j].items()} for j in range(Bn)],
            "noise": [entries[i] if j == i else {kp: (1e3 * rng.normal(size=b.shape)).astype(np.float32) for kp, b in entries[j].items()} for j in range(Bn)],
        }
        for vn, es in variants.items():
            out = mlh.np_blocks(vf(stack(es)))
            evals += 1
            for t in base:
                if not np.array_equal(out[t][i], base[t][i]):
                    bad(f"C14/cross-talk/{name}/{vn}", f"{name}: entry {i} of the batched result changes when the other entries are replaced ({vn}); block {t}, max diff {np.max(np.abs(out[t][i] - base[t][i])):.2e}")
                    break
    return {"violations": v, "nt": True, "evals": evals, "metric": worst, "outcome": f"vmap/{name}"}


def _loss_case(case, seed):
    """per-entry losses: entry i of the un-reduced loss only depends on entry i of prediction and target"""
    import jax.numpy as jnp
    import ginjax.geometric as geom
    import ginjax.ml as ml
    from vlib import mlh

    D, sp, Bn, S = 2, (3, 4), 3, 2
    rng = rng_for(seed, "C14loss", case["unsorted"])
    sig = [((0, 0), 2), ((1, 0), 4)]
    order = [(1, 0), (0, 0)] if case["unsorted"] else [(0, 0), (1, 0)]
    v = []
    evals = 0
    P = [mlh.make_input(sig, D, sp, rng, integer=False) for _ in range(Bn)]
    T = [mlh.make_input(sig, D, sp, rng, integer=False) for _ in range(Bn)]

    def stack(es, o):
        return geom.MultiImage({kp: jnp.asarray(np.stack([e[kp] for e in es])) for kp in o}, D, True)

    fns = {"smse": lambda a, b: np.asarray(ml.smse_loss(a, b, reduce=None)), "timestep": lambda a, b: np.asarray(ml.timestep_smse_loss(a, b, S, reduce=None))}
    for name, f in fns.items():
        base = f(stack(P, order), stack(T, order[::-1]))
        for i in range(Bn):
            single = f(stack([P[i]], order), stack([T[i]], order[::-1]))[0]
            evals += 1
            if not np.allclose(base[i], single, rtol=1e-6, atol=1e-6):
                v.append(viol(f"C14/loss/{name}/vs-single", f"{name} loss of entry {i} in a batch != loss of that entry alone", case=case))
            P2 = [P[j] if j == i else {kp: (1e3 * rng.normal(size=b.shape)).astype(np.float32) for kp, b in P[j].items()} for j in range(Bn)]
            T2 = [T[j] if j == i else {kp: np.zeros_like(b) for kp, b in T[j].items()} for j in range(Bn)]
            out = f(stack(P2, order), stack(T2, order[::-1]))
            evals += 1
            if not np.array_equal(out[i], base[i]):
                v.append(viol(f"C14/loss/{name}/cross-talk", f"{name} loss of entry {i} changes when the other entries are replaced", case=case))
    return {"violations": v[:5], "nt": True, "evals": evals, "outcome": "vmap/losses"}


def run_case(case, seed):
    return _ops_case(case) if case["kind"] == "ops" else _vmap_case(case, seed)


CLAIM = {
    "text": "Per-image operations: every (d, signature, storage order, 0-3 leading axes) cell, every image compared with the single-image operation on identifier data. Layers and models (equivariant and conventional, with group norm) under jax.vmap: every batch position, against the un-batched call and bit for bit against runs whose other entries are permuted, zeroed or replaced by large noise, for sorted and unsorted storage orders.",
    "note": "Trusted: numpy comparisons. Batch norm is outside the alphabet by design.",
    "technique": "exhaustive enumeration of layouts x storage orders x batch positions x batch replacements on the real code, differential oracle",
}
