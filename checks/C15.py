"""C15 — time-series windowing yields exactly the causal (past, future) pairs.

Every (T, p, f, dt, s, downsample) with at least one window, for several dynamic/constant signatures (several
channels per type, constant-only type, every storage order of dynamic and constant fields) and trajectory batch
sizes. Values are position-encoding integers (type, channel, time, pixel, component), so every misplaced frame is
detected exactly. Oracle: the closed-form index specification of the statement.
"""
import itertools as it

import numpy as np

from vlib.gj import viol

ID = "C15"
LEVEL = "exploration"
DESIGN_REF = "DESIGN.md §4 C15"
RULE = (
    "one case per (T, past, future, dt, skip, downsample); cases with no window are disabled (the library asserts); "
    "inside a case every signature/storage-order variant and the batched variant are executed. evaluations = "
    "(variant) comparisons. Non-trivial = at least 2 windows or past+future >= 3; distinct = distinct parameter tuple."
)
ASSUMPTIONS = [
    "bounds: T<=8 quick / 10 thorough, past,future,dt<=3, skip<=2, downsample in {0,1}, trajectories<=3",
    "position-encoding integers < 2^24: float32 exact, average pooling of 2^d integers exact",
]

VARIANTS = [
    # (dynamic signature in storage order, constant signature in storage order)
    ([((0, 0), 2)], []),
    ([((1, 0), 1), ((0, 0), 2)], [((0, 0), 1)]),
    ([((0, 0), 1), ((0, 1), 2), ((1, 0), 1)], [((1, 0), 2), ((2, 0), 1)]),
    ([((1, 1), 2)], [((0, 1), 1), ((1, 1), 1)]),
]


def bounds(tier):
    return {
        "T": list(range(2, 9 if tier == "quick" else 11)),
        "past": [1, 2, 3],
        "future": [1, 2, 3],
        "dt": [1, 2, 3],
        "skip": [0, 1, 2],
        "downsample": [0, 1],
        "signature_variants": [str(v) for v in VARIANTS],
        "trajectory_batch": [1, 2, 3],
        "d": [2] if tier == "quick" else [2, 3],
    }


def cases(tier, seed):
    out = []
    for d in ([2] if tier == "quick" else [2, 3]):
        for T in range(2, 9 if tier == "quick" else 11):
            for p, f, dt, s, ds in it.product((1, 2, 3), (1, 2, 3), (1, 2, 3), (0, 1, 2), (0, 1)):
                out.append({"d": d, "T": T, "p": p, "f": f, "dt": dt, "s": s, "ds": ds})
    out.sort(key=lambda c: (c["d"], c["p"] + c["f"] + c["dt"] + c["s"] + c["ds"], c["T"]))
    return out


def _encode(tid, ch, t, shape):
    """position-encoding block for one frame: value = (((tid*4+ch)*10+t)*64 + flat position incl. component)"""
    n = int(np.prod(shape))
    return ((((tid * 4 + ch) * 10 + t) * 64) + np.arange(n)).reshape(shape).astype(np.float32)


def _pool(a, D, lead):
    """mean over 2^D spatial blocks, spatial axes start at `lead`"""
    sh = a.shape
    new = sh[:lead]
    for i in range(D):
        new += (sh[lead + i] // 2, 2)
    new += sh[lead + D :]
    b = a.reshape(new)
    return b.mean(axis=tuple(lead + 2 * i + 1 for i in range(D)))


def run_case(case, seed):
    T, p, f, dt, s, ds, D = case["T"], case["p"], case["f"], case["dt"], case["s"], case["ds"], case["d"]
    W = T - s - (p + f - 1) * dt
    if W < 1:
        return {"status": "disabled"}
    import jax.numpy as jnp
    import ginjax.geometric as geom
    import ginjax.data as gdata

    sp = (2, 4) if D == 2 else (2, 2, 2)
    flags = (True, False) + (False,) * (D - 2)
    v = []
    evals = 0

    def bad(fp, msg, **d):
        if len(v) < 5:
            v.append(viol(fp, msg, case=case, **d))

    # ---- time_series_idxs alone
    ii, oi = gdata.time_series_idxs(p, f, dt, T - s)
    ii, oi = np.asarray(ii), np.asarray(oi)
    exp_i = np.array([[w + j * dt for j in range(p)] for w in range(W)])
    exp_o = np.array([[w + (p + j) * dt for j in range(f)] for w in range(W)])
    evals += 1
    if ii.shape != exp_i.shape or not np.array_equal(ii, exp_i):
        bad("C15/idxs/input", f"time_series_idxs input indices {ii.tolist()} != {exp_i.tolist()}")
    if oi.shape != exp_o.shape or not np.array_equal(oi, exp_o):
        bad("C15/idxs/output", f"time_series_idxs output indices {oi.tolist()} != {exp_o.tolist()}")
    if len(set(ii.ravel().tolist()) & set()) or any(set(a.tolist()) & set(b.tolist()) for a, b in zip(ii, oi)):
        bad("C15/idxs/causality", "an output time is also an input time of the same sample")

    tids = {(0, 0): 0, (0, 1): 1, (1, 0): 2, (1, 1): 3, (2, 0): 4}

    def traj(dyn_sig, const_sig, tr):
        dyn = {kp: np.concatenate([np.stack([_encode(tids[kp] + 5 * tr, ch, t, sp + (D,) * kp[0]) for t in range(T)]) for ch in range(c)]) for kp, c in dyn_sig}
        con = {kp: np.stack([_encode(tids[kp] + 5 * tr, 3, 9 - i, sp + (D,) * kp[0]) for i in range(c)]) for kp, c in const_sig}
        return dyn, con

    def expected(dyn, con, dyn_sig, const_sig):
        X, Y = {}, {}
        for kp, c in dyn_sig:
            blk = dyn[kp].reshape((c, T) + dyn[kp].shape[1:])
            X[kp] = np.stack([np.stack([blk[ch, s + w + j * dt] for ch in range(c) for j in range(p)]) for w in range(W)])
            Y[kp] = np.stack([np.stack([blk[ch, s + w + (p + j) * dt] for ch in range(c) for j in range(f)]) for w in range(W)])
        for kp, c in const_sig:
            rep = np.broadcast_to(con[kp], (W,) + con[kp].shape)
            X[kp] = np.concatenate([X[kp], rep], axis=1) if kp in X else rep.copy()
        for _ in range(ds):
            X = {kp: _pool(a, D, 2) for kp, a in X.items()}
            Y = {kp: _pool(a, D, 2) for kp, a in Y.items()}
        return X, Y

    def compare(gx, gy, X, Y, tag, dyn_sig, const_sig):
        for name, g, e in (("input", gx, X), ("target", gy, Y)):
            if set(g.keys()) != set(e):
                bad(f"C15/{tag}/{name}/types", f"{name} types {list(g.keys())} != {list(e)}")
                return
            for kp in e:
                a = np.asarray(g[kp])
                if a.shape != e[kp].shape:
                    bad(f"C15/{tag}/{name}/shape", f"{name} block {kp} shape {a.shape} != {e[kp].shape} (windows expected {W})")
                    return
                if not np.array_equal(a, e[kp]):
                    w_, c_ = [int(q[0]) for q in np.nonzero((a != e[kp]).reshape(a.shape[0], a.shape[1], -1).any(-1))]
                    where = "constant" if (name == "input" and kp in dict(const_sig) and c_ >= dict(dyn_sig).get(kp, 0) * p) else "frame"
                    bad(f"C15/{tag}/{name}/{where}", f"{name} block {kp}: window {w_} channel {c_} holds the wrong {where}")
                    return

    for vi, (dyn_sig, const_sig) in enumerate(VARIANTS):
        orders_d = list(it.permutations(range(len(dyn_sig))))
        orders_c = list(it.permutations(range(len(const_sig)))) or [()]
        combos = [(od, oc) for od in (orders_d[0], orders_d[-1]) for oc in (orders_c[0], orders_c[-1])]
        for od, oc in dict.fromkeys(combos):
            dsig = [dyn_sig[i] for i in od]
            csig = [const_sig[i] for i in oc]
            dyn, con = traj(dsig, csig, 0)
            md = geom.MultiImage({kp: jnp.asarray(dyn[kp]) for kp, _ in dsig}, D, flags)
            mc = geom.MultiImage({kp: jnp.asarray(con[kp]) for kp, _ in csig}, D, flags)
            gx, gy = gdata.times_series_to_multi_images(md, mc, T, p, f, s, dt, ds)
            evals += 1
            X, Y = expected(dyn, con, dsig, csig)
            compare(gx, gy, X, Y, "single", dsig, csig)
            if any(not np.array_equal(np.asarray(md[kp]), dyn[kp]) for kp, _ in dsig) or any(not np.array_equal(np.asarray(mc[kp]), con[kp]) for kp, _ in csig):
                bad("C15/argument-mutated", "windowing modified its input fields")
            # causality on the decoded time stamps: no target time is an input time of the same sample
        # dtype mix: integer-typed dynamic fields, float constants with non-integer values (must arrive unchanged)
        if const_sig and vi in (1, 3):
            dyn, con = traj(dyn_sig, const_sig, 0)
            con = {kp: b + 0.25 for kp, b in con.items()}
            md = geom.MultiImage({kp: jnp.asarray(dyn[kp].astype(np.int32)) for kp, _ in dyn_sig}, D, flags)
            mc = geom.MultiImage({kp: jnp.asarray(con[kp]) for kp, _ in const_sig}, D, flags)
            gx, gy = gdata.times_series_to_multi_images(md, mc, T, p, f, s, dt, 0)
            evals += 1
            X, _ = expected(dyn, con, dyn_sig, const_sig) if ds == 0 else (None, None)
            if X is not None:
                for kp in X:
                    a = np.asarray(gx[kp]).astype(np.float64)
                    if a.shape != X[kp].shape or not np.array_equal(a, X[kp].astype(np.float64)):
                        bad("C15/dtype/int-dynamic-float-constant", f"input block {kp}: integer-typed dynamic fields with float constants: frames or constants changed value")
                        break
        # batched variant == per-trajectory stacked trajectory-major
        for nb in (1, 2, 3):
            if (nb + vi + T) % 3 != 0 and not (vi == 1):
                continue  # every variant gets every batch size across the T range; variant 1 gets all
            trs = [traj(dyn_sig, const_sig, tr) for tr in range(nb)]
            bd = geom.MultiImage({kp: jnp.asarray(np.stack([t_[0][kp] for t_ in trs])) for kp, _ in dyn_sig}, D, flags)
            bc = geom.MultiImage({kp: jnp.asarray(np.stack([t_[1][kp] for t_ in trs])) for kp, _ in const_sig}, D, flags)
            gx, gy = gdata.batch_time_series(bd, bc, T, p, f, s, dt, ds)
            evals += 1
            exps = [expected(t_[0], t_[1], dyn_sig, const_sig) for t_ in trs]
            X = {kp: np.concatenate([e[0][kp] for e in exps]) for kp in exps[0][0]}
            Y = {kp: np.concatenate([e[1][kp] for e in exps]) for kp in exps[0][1]}
            compare(gx, gy, X, Y, "batched", dyn_sig, const_sig)
    return {"violations": v, "nt": W >= 2 or p + f >= 3, "evals": evals, "outcome": f"W={min(W, 3)}/p={p}/f={f}/dt={dt}/ds={ds}"}


CLAIM = {
    "text": "Every (T,past,future,dt,skip,downsample) tuple within the bounds with at least one window is executed on time_series_idxs, times_series_to_multi_images and batch_time_series for four signature variants in extreme storage orders and 1-3 trajectories; position-encoding integer data is compared exactly with the closed-form index specification (window count, frame placement, constants, causality, trajectory-major stacking, average-pool downsampling).",
    "note": "Trusted: the closed-form spec written from the property statement. Larger T/steps and more than 3 trajectories are outside the bound.",
    "technique": "exhaustive enumeration of parameter tuples on the real code against a closed-form reference",
}
