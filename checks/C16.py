"""C16 — autoregressive rollout feeds each prediction back correctly.

Histories: rollout length n x past steps x dynamic signature x constant layout (incl. constant-only types) x EVERY
storage order of the types. The model is a history-sensitive integer map (distinct weight per (type, channel, lag),
constants and constant-only types enter, the position of each type in the key order enters), so any window
permutation, misplaced constant or reordered type changes the numbers. Oracle: an explicit sliding-window reference
(lists of per-channel frames) applied n times; every intermediate model input is compared, not only the final stack.
"""
import itertools as it

import numpy as np

from vlib.gj import viol, rng_for

ID = "C16"
LEVEL = "model_checking"
DESIGN_REF = "DESIGN.md §4 C16"
RULE = (
    "one case per (n, past_steps, dynamic signature, constant layout, storage order, eager|vmap); the real "
    "autoregressive_map / autoregressive_step are run and EVERY intermediate input handed to the model (a state of "
    "the rollout) is compared exactly with the reference sliding window, as is the stacked output. states = model "
    "inputs compared, transitions = autoregressive steps, traces = rollouts. Non-trivial = n>=2 or past>=2 with a "
    "non-zero prediction; distinct = distinct case."
)
ASSUMPTIONS = [
    "future_steps == 1 (the only value the library supports)",
    "one case runs call histories (every ordered pair of 4 layouts with colliding channel totals, as a,b,a) in a single process",
    "bounds: n<=4 (thorough 6), past_steps<=3 (thorough 4), <=3 types, <=2 dynamic channels and <=2 constants per type, d=2 (thorough +d=3)",
    "integer data mod 13: float32 arithmetic exact",
]

DYN = [
    {"0,0": 1},
    {"0,0": 2},
    {"1,0": 1},
    {"0,0": 1, "1,0": 2},
    {"0,0": 2, "0,1": 1, "1,0": 1},
]
CONST = [
    {},
    {"0,0": 1},
    {"0,0": 2, "1,0": 1},
    {"0,1": 2},
    {"2,0": 1, "0,0": 1},
]


def bounds(tier):
    return {
        "n": list(range(1, 5 if tier == "quick" else 7)),
        "past_steps": list(range(1, 4 if tier == "quick" else 5)),
        "dynamic_signatures": DYN,
        "constant_layouts": CONST,
        "storage_orders": "every permutation of the type set",
        "boundary": ["eager (recording model, every intermediate input compared)", "jax.vmap over a batch axis (output compared)", "int32-typed input with float predictions"],
        "d": [2] if tier == "quick" else [2, 3],
    }


def _kp(s):
    a, b = s.split(",")
    return (int(a), int(b))


def cases(tier, seed):
    out = []
    ns = range(1, 5) if tier == "quick" else range(1, 7)
    pasts = range(1, 4) if tier == "quick" else range(1, 5)
    for d in ([2] if tier == "quick" else [2, 3]):
        for dyn in DYN:
            for const in CONST:
                types = sorted(set(dyn) | set(const))
                orders = list(it.permutations(types))
                for order in orders:
                    for past in pasts:
                        for n in ns:
                            out.append({"d": d, "dyn": dyn, "const": const, "order": list(order), "past": past, "n": n, "mode": "eager"})
                # dtype variant: integer-typed input fields, a model with non-integer (float) predictions
                for past in pasts:
                    out.append({"d": d, "dyn": dyn, "const": const, "order": list(orders[0]), "past": past, "n": min(3, max(ns)), "mode": "int32"})
                # vmap variant: storage order is re-sorted by jax, so only the value semantics is compared
                for past in pasts:
                    out.append({"d": d, "dyn": dyn, "const": const, "order": list(orders[-1]), "past": past, "n": max(ns) - 1, "mode": "vmap"})
    out.sort(key=lambda c: (c["d"], c["n"] + c["past"], len(c["order"])))
    # call histories in ONE process: layouts with the same channel totals, constant types and past_steps but a
    # different dynamic/constant split, in both orders (module-level caches keyed too coarsely)
    out.append({"d": 2, "mode": "history", "n": 3, "past": 2, "dyn": {}, "const": {}, "order": []})
    return out


def _weights(kp, ch, lag):
    k, p = kp
    return 1 + (lag + 3 * ch + 5 * k + 7 * p) % 11


def _model_core(blocks, order, dyn, const, past, xp, use_pos, frac=0.0):
    """blocks: dict kp -> array (channels, spatial, tensor) (xp = numpy or jax.numpy). Returns dict kp -> (c, spatial, tensor)."""
    # scalar cross term from every k=0 block (dynamic, constant and constant-only), channel-weighted
    cross = 0
    for kp in sorted(blocks):
        if kp[0] == 0:
            blk = blocks[kp]
            for j in range(blk.shape[0]):
                cross = cross + (j + 1 + 2 * kp[1]) * blk[j]
    out = {}
    for kp in order:
        c = dyn.get(kp, 0)
        if c == 0:
            continue
        blk = blocks[kp]
        nconst = const.get(kp, 0)
        frames = []
        for ch in range(c):
            acc = 0
            for lag in range(past):
                acc = acc + _weights(kp, ch, lag) * blk[ch * past + lag]
            for j in range(nconst):
                acc = acc + (2 + j + ch) * blk[c * past + j]
            acc = acc + xp.reshape(cross, cross.shape + (1,) * kp[0]) if not isinstance(cross, int) else acc
            if use_pos:
                acc = acc + 3 * order.index(kp)
            frames.append(xp.mod(acc, 13) + frac)
        out[kp] = xp.stack(frames)
    return out


def run_case(case, seed):
    import jax
    import jax.numpy as jnp
    import ginjax.geometric as geom
    import ginjax.ml as ml

    if case["mode"] == "history":
        menu = [
            {"dyn": {"0,0": 2}, "const": {"0,0": 2}, "past": 2},  # 6 scalar channels: 2 dynamic x 2 steps + 2 constants
            {"dyn": {"0,0": 1}, "const": {"0,0": 4}, "past": 2},  # 6 scalar channels: 1 dynamic x 2 steps + 4 constants
            {"dyn": {"0,0": 1, "1,0": 1}, "const": {"0,0": 1, "1,0": 2}, "past": 2},
            {"dyn": {"0,0": 1, "1,0": 2}, "const": {"0,0": 1, "1,0": 0}, "past": 2},
        ]
        v, st, tr = [], 0, 0
        for a in menu:
            for b in menu:
                if a is b:
                    continue
                for c in (a, b, a):
                    cc = {"d": 2, "dyn": {k: n_ for k, n_ in c["dyn"].items() if n_}, "const": {k: n_ for k, n_ in c["const"].items() if n_}, "past": c["past"], "n": case["n"], "mode": "eager"}
                    cc["order"] = sorted(set(cc["dyn"]) | set(cc["const"]))
                    r = run_case(cc, seed)
                    st += r["states"]
                    tr += r["transitions"]
                    if r["violations"]:
                        x = r["violations"][0]
                        v.append(viol("C16/history/" + x["fp"].split("/", 1)[1], f"in the call history {[m['dyn'] for m in (a, b, a)]} / constants {[m['const'] for m in (a, b, a)]}: " + x["msg"], case=case))
                        break
                if v:
                    break
            if v:
                break
        return {"violations": v, "nt": True, "evals": 1, "states": st, "transitions": tr, "traces": 1, "outcome": "history"}
    D = case["d"]
    sp = (2, 3) if D == 2 else (2, 1, 3)
    dyn = {_kp(k): v for k, v in case["dyn"].items()}
    const = {_kp(k): v for k, v in case["const"].items()}
    order = [_kp(k) for k in case["order"]]
    past, n = case["past"], case["n"]
    v = []
    rng = rng_for(0, "C16", repr(sorted(case.items(), key=str)))  # integer data, independent of VERIF_SEED (exact check)

    def bad(fp, msg, **d):
        if len(v) < 4:
            v.append(viol(fp, msg, case=case, **d))

    # initial input blocks, integer entries in 0..12, all distinct-ish
    blocks = {}
    for kp in order:
        c, nc = dyn.get(kp, 0), const.get(kp, 0)
        blocks[kp] = rng.integers(0, 13, size=(c * past + nc,) + sp + (D,) * kp[0]).astype(np.float32)
    const_dict = dict(const)

    # ---------------- reference rollout (explicit sliding window on lists)
    def ref_rollout(blocks0, use_pos):
        state = {kp: [[blocks0[kp][ch * past + lag] for lag in range(past)] for ch in range(dyn.get(kp, 0))] for kp in order}
        consts = {kp: [blocks0[kp][dyn.get(kp, 0) * past + j] for j in range(const.get(kp, 0))] for kp in order}
        inputs, preds = [], []
        for _ in range(n):
            cur = {kp: np.stack([f for ch in state[kp] for f in ch] + consts[kp]) for kp in order}
            inputs.append(cur)
            pred = _model_core(cur, order, dyn, const, past, np, use_pos)
            preds.append(pred)
            for kp in pred:
                for ch in range(dyn[kp]):
                    state[kp][ch] = state[kp][ch][1:] + [pred[kp][ch]]
        final = {kp: np.stack([f for ch in state[kp] for f in ch] + consts[kp]) for kp in order}
        stacked = {kp: np.stack([preds[s][kp][ch] for ch in range(dyn[kp]) for s in range(n)]) for kp in preds[0]}
        return inputs, preds, final, stacked

    dyn_order = [kp for kp in order if dyn.get(kp, 0) > 0]
    states = transitions = 0

    if case["mode"] == "int32":
        # the input fields are stored as int32, the model predicts non-integer float32 values (x.5): the fed-back
        # window must hold the predictions themselves, not a cast of them
        iblocks = {kp: b.astype(np.int32) for kp, b in blocks.items()}

        def model(x, aux):
            out = _model_core({kp: b.astype(jnp.float32) for kp, b in x.items()}, list(x.keys()), dyn, const, past, jnp, True, 0.5)
            return geom.MultiImage({kp: out[kp] for kp in out}, D, x.is_torus), aux

        st = {kp: [[blocks[kp][ch * past + lag] for lag in range(past)] for ch in range(dyn.get(kp, 0))] for kp in order}
        cs = {kp: [blocks[kp][dyn.get(kp, 0) * past + j] for j in range(const.get(kp, 0))] for kp in order}
        preds = []
        for _ in range(n):
            cur = {kp: np.stack([f for ch in st[kp] for f in ch] + cs[kp]).astype(np.float32) for kp in order}
            pr = _model_core(cur, order, dyn, const, past, np, True, 0.5)
            preds.append(pr)
            for kp in pr:
                for ch in range(dyn[kp]):
                    st[kp][ch] = st[kp][ch][1:] + [pr[kp][ch]]
        x0 = geom.MultiImage({kp: jnp.asarray(iblocks[kp]) for kp in order}, D, True)
        got, _ = ml.autoregressive_map(model, x0, None, past, n, const_dict)
        transitions += n
        states += n
        for kp in dyn_order:
            exp = np.stack([preds[s][kp][ch] for ch in range(dyn[kp]) for s in range(n)]).astype(np.float64)
            g = np.asarray(got[kp]).astype(np.float64)
            if g.shape != exp.shape or not np.array_equal(g, exp):
                bad("C16/dtype/int-input", f"rollout of integer-typed input with float predictions differs from n explicit applications on block {kp} (predictions cast on feedback?)")
                break
        nontrivial = n >= 2
    elif case["mode"] == "eager":
        seen_inputs = []

        def model(x, aux):
            seen_inputs.append((list(x.keys()), {kp: np.asarray(b) for kp, b in x.items()}))
            out = _model_core({kp: b for kp, b in x.items()}, list(x.keys()), dyn, const, past, jnp, True)
            return geom.MultiImage({kp: out[kp] for kp in out}, D, x.is_torus), aux

        x0 = geom.MultiImage({kp: jnp.asarray(blocks[kp]) for kp in order}, D, (True, False) + (True,) * (D - 2))
        inputs, preds, final, stacked = ref_rollout(blocks, True)
        got, _ = ml.autoregressive_map(model, x0, None, past, n, const_dict)
        transitions += n
        # the rollout must not modify its arguments, and a second call must repeat the first
        if list(x0.keys()) != order or any(not np.array_equal(np.asarray(x0[kp]), blocks[kp]) for kp in order) or const_dict != dict(const):
            bad("C16/argument-mutated", "autoregressive_map modified its input multi-image or the constant-field dictionary")
        n_seen = len(seen_inputs)
        got2, _ = ml.autoregressive_map(model, x0, None, past, n, const_dict)
        del seen_inputs[n_seen:]
        if any(not np.array_equal(np.asarray(got2[kp]), np.asarray(got[kp])) for kp in got.keys()):
            bad("C16/not-repeatable", "a second identical rollout returned different values (stale state between calls)")
        # every intermediate input (state of the rollout)
        if len(seen_inputs) != n:
            bad("C16/map/calls", f"model called {len(seen_inputs)} times for n={n}")
        for s, (keys, blks) in enumerate(seen_inputs[:n]):
            states += 1
            if keys != order:
                bad("C16/input/type-order", f"step {s}: model input type order {keys} != original {order}", step=s)
                break
            for kp in order:
                if blks[kp].shape != inputs[s][kp].shape or not np.array_equal(blks[kp], inputs[s][kp]):
                    bad(f"C16/input/window/{'const' if const.get(kp) else 'dyn'}", f"step {s}: model input block {kp} != sliding-window reference", step=s, type=list(kp))
                    break
        # the stacked output
        if list(got.keys()) != dyn_order and set(got.keys()) != set(dyn_order):
            bad("C16/map/types", f"rollout types {list(got.keys())} != dynamic types {dyn_order}")
        else:
            for kp in dyn_order:
                g = np.asarray(got[kp])
                if g.shape != stacked[kp].shape or not np.array_equal(g, stacked[kp]):
                    bad("C16/map/stack-order", f"rollout block {kp} is not the n predictions in time order per channel")
                    break
        # single step function on the first step (direct call), also with a dict given as signature tuple
        pred0 = geom.MultiImage({kp: jnp.asarray(preds[0][kp]) for kp in preds[0]}, D, x0.is_torus)
        nxt = ml.autoregressive_step(x0, pred0, past, const_dict)
        transitions += 1
        states += 1
        exp_next = inputs[1] if n > 1 else final
        if list(nxt.keys()) != order:
            bad("C16/step/type-order", f"autoregressive_step type order {list(nxt.keys())} != {order}")
        else:
            for kp in order:
                if np.asarray(nxt[kp]).shape != exp_next[kp].shape or not np.array_equal(np.asarray(nxt[kp]), exp_next[kp]):
                    bad("C16/step/window", f"autoregressive_step block {kp}: oldest not dropped / prediction not newest / constant moved")
                    break
        nontrivial = (n >= 2 or past >= 2) and any(np.any(p != 0) for p in stacked.values())
    else:
        B = 2
        bblocks = {kp: np.stack([blocks[kp], (blocks[kp] * 5 + 1) % 13]) for kp in order}
        refs = [ref_rollout({kp: bblocks[kp][b] for kp in order}, False) for b in range(B)]

        def model(x, aux):
            out = _model_core({kp: b for kp, b in x.items()}, sorted(x.keys()), dyn, const, past, jnp, False)
            return geom.MultiImage({kp: out[kp] for kp in out}, D, x.is_torus), aux

        xb = geom.MultiImage({kp: jnp.asarray(bblocks[kp]) for kp in order}, D, True)
        f = jax.vmap(lambda x: ml.autoregressive_map(model, x, None, past, n, const_dict)[0])
        got = f(xb)
        transitions += n * B
        states += n * B
        for b in range(B):
            stacked = refs[b][3]
            for kp in dyn_order:
                g = np.asarray(got[kp][b])
                if g.shape != stacked[kp].shape or not np.array_equal(g, stacked[kp]):
                    bad("C16/vmap/stack", f"vmapped rollout entry {b} block {kp} != reference rollout of that entry")
                    break
        nontrivial = True

    return {
        "violations": v,
        "nt": bool(nontrivial),
        "evals": 1,
        "states": states,
        "transitions": transitions,
        "traces": 1,
        "outcome": f"{case['mode']}/types={len(order)}/constonly={any(dyn.get(kp, 0) == 0 for kp in order)}/n>1={n > 1}",
    }


CLAIM = {
    "text": "All rollouts within the bounds (n<=4, past<=3, 5 dynamic signatures x 5 constant layouts incl. constant-only types, every storage order) are executed on the real autoregressive_map/autoregressive_step with a history-, constant- and order-sensitive integer model; every intermediate model input and the final stack are compared exactly with an explicit sliding-window reference.",
    "note": "Trusted: the reference sliding window (lists of frames). The model family is fixed (linear mod 13 with distinct weights, cross-type scalar term, key-position term).",
    "technique": "bounded-exhaustive exploration of rollout histories on the real code in lock step with a reference model",
}
