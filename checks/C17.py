"""C17 — mini-batching is an aligned partition of the data set.

All (L, B<=L) up to the bound x key in {None, 12 keys derived from VERIF_SEED} x 1..3 co-batched multi-images with
different type sets x every device count dividing B. Samples carry their own index as value, so pairing is decided
exactly.
"""
import numpy as np

from vlib.gj import viol

ID = "C17"
LEVEL = "exploration"
DESIGN_REF = "DESIGN.md §4 C17"
RULE = (
    "one case per (L, B, key, number of co-batched multi-images); every device count dividing B is run inside the "
    "case. evaluations = get_batches calls. Non-trivial = at least 2 batches or a shuffling key with B>=2; "
    "distinct = distinct case."
)
ASSUMPTIONS = [
    "bounds: L<=8 quick / 12 thorough; device lists are fake objects (the code only uses len(devices)); one real CPU device (L4)",
    "shuffling keys are a finite menu derived from VERIF_SEED; the partition/alignment oracle does not depend on which permutation is drawn",
]


def bounds(tier):
    return {"L": list(range(1, 9 if tier == "quick" else 13)), "B": "1..L", "keys": ["None", "12 (quick) / 24 (thorough) PRNG keys from VERIF_SEED"], "co_batched": [1, 2, 3], "devices": "all divisors of B"}


def cases(tier, seed):
    out = []
    for L in range(1, 9 if tier == "quick" else 13):
        for B in range(1, L + 1):
            for key in (None,) + tuple(range(12 if tier == "quick" else 24)):
                for nmi in (1, 2, 3):
                    out.append({"L": L, "B": B, "key": key, "nmi": nmi})
    out.sort(key=lambda c: (c["L"], c["nmi"], c["key"] is not None, c["B"]))
    return out


TYPES = [
    [((0, 0), 1), ((1, 0), 2)],
    [((1, 0), 1)],
    [((0, 1), 3), ((2, 0), 1), ((0, 0), 2)],
]


def run_case(case, seed):
    import jax.numpy as jnp
    import jax.random as random
    import ginjax.geometric as geom
    import ginjax.ml as ml

    L, B, nmi = case["L"], case["B"], case["nmi"]
    D, sp = 2, (2, 3)
    v = []
    evals = 0

    def bad(fp, msg):
        if len(v) < 5:
            v.append(viol(fp, msg, case=case))

    mis = []
    for t in TYPES[:nmi]:
        blocks = {}
        for kp, c in t:
            shape = (L, c) + sp + (D,) * kp[0]
            idx = np.arange(L, dtype=np.float32).reshape((L,) + (1,) * (len(shape) - 1))
            blocks[kp] = jnp.asarray(np.broadcast_to(idx, shape).copy())
        mis.append(geom.MultiImage(blocks, D, (True, False)))
    key = None if case["key"] is None else random.PRNGKey(seed * 7919 + case["key"])
    for ndev in [n for n in range(1, B + 1) if B % n == 0]:
        arg = mis[0] if nmi == 1 and ndev % 2 == 1 else tuple(mis)
        res = ml.get_batches(arg, B, key, [None] * ndev)
        evals += 1
        # batching must not modify the data set, and a second identical call must return the same batches
        for j, t in enumerate(TYPES[:nmi]):
            for kp, c in t:
                if np.asarray(mis[j][kp]).shape[0] != L or not np.all(np.asarray(mis[j][kp]).reshape(L, -1)[:, 0] == np.arange(L)):
                    bad("C17/argument-mutated", f"get_batches modified its input data set (multi-image {j}, type {kp})")
        res2 = ml.get_batches(arg, B, key, [None] * ndev)
        if len(res2) != len(res) or any(len(a) != len(b) for a, b in zip(res, res2)) or any(not np.array_equal(np.asarray(x[kp]), np.asarray(y[kp])) for a, b in zip(res, res2) for x, y in zip(a, b) for kp in x.keys()):
            bad("C17/not-repeatable", "a second identical get_batches call returned different batches")
        if len(res) != nmi:
            bad("C17/structure", f"got {len(res)} batch lists for {nmi} multi-images")
            continue
        nb = L // B
        if any(len(r) != nb for r in res):
            bad("C17/count", f"{[len(r) for r in res]} batches, expected floor(L/B)={nb}")
            continue
        seen = []
        for bi in range(nb):
            ref = None
            for j in range(nmi):
                m = res[j][bi]
                for kp, c in TYPES[j]:
                    blk = np.asarray(m[kp])
                    exp_shape = (ndev, B // ndev, c) + sp + (D,) * kp[0]
                    if blk.shape != exp_shape:
                        bad("C17/shape", f"batch block shape {blk.shape} != {exp_shape} (devices={ndev})")
                        continue
                    flat = blk.reshape((B, -1))
                    if not np.all(flat == flat[:, :1]):
                        bad("C17/mixed-sample", "a batch entry mixes several samples")
                        continue
                    idx = flat[:, 0].astype(int)  # row-major reshape of the device axis must keep the order
                    if ref is None:
                        ref = idx
                    elif not np.array_equal(ref, idx):
                        bad("C17/alignment", f"batch {bi}: multi-image {j} type {kp} sliced with {idx.tolist()} but the first block with {ref.tolist()}")
            if ref is not None:
                seen.extend(ref.tolist())
                if key is None and ref.tolist() != list(range(bi * B, (bi + 1) * B)):
                    bad("C17/identity-order", f"no key: batch {bi} holds {ref.tolist()}, expected identity order (devices={ndev})")
        if len(seen) != len(set(seen)):
            bad("C17/duplicate", f"a sample index appears twice in an epoch: {seen}")
        if any(i < 0 or i >= L for i in seen):
            bad("C17/range", "index out of range")
    # history: batch, grow the data set in place (append along the sample axis), batch again
    if nmi == 1 and case["key"] in (None, 0) and L >= 2:
        L0 = L // 2
        t = TYPES[0]
        def block(lo, hi, kp, c):
            shape = (hi - lo, c) + sp + (D,) * kp[0]
            idx = np.arange(lo, hi, dtype=np.float32).reshape((hi - lo,) + (1,) * (len(shape) - 1))
            return jnp.asarray(np.broadcast_to(idx, shape).copy())
        mi = geom.MultiImage({kp: block(0, L0, kp, c) for kp, c in t}, D, (True, False))
        if L0 >= 1:
            ml.get_batches(mi, min(B, L0), key, [None])
        for kp, c in t:
            mi.append(kp[0], kp[1], block(L0, L, kp, c), axis=0)
        res = ml.get_batches(mi, B, key, [None])
        evals += 1
        seen = []
        for m in res[0]:
            seen.extend(np.asarray(m[t[0][0]]).reshape(B, -1)[:, 0].astype(int).tolist())
        if len(res[0]) != L // B or len(seen) != len(set(seen)) or any(i < 0 or i >= L for i in seen) or (key is None and seen != list(range((L // B) * B))):
            bad("C17/history/grown-data-set", f"after growing the data set in place from {L0} to {L} samples: {len(res[0])} batches holding {seen}, expected floor({L}/{B}) batches partitioning range({L})")
    return {"violations": v, "nt": (L // B >= 2) or (case["key"] is not None and B >= 2), "evals": evals, "outcome": f"nb={min(L // B, 3)}/key={case['key'] is not None}/nmi={nmi}"}


CLAIM = {
    "text": "Every (L,B) pair up to the bound, with and without shuffling keys, with 1-3 co-batched multi-images of different type sets and every device count dividing B, is executed on ml.get_batches with index-valued samples; batch count, uniqueness, alignment across multi-images and types, identity order and the device-axis reshape are decided exactly.",
    "note": "Trusted: numpy comparisons. Real multi-device pmap is not available (one CPU device); the device axis is exercised through len(devices) only.",
    "technique": "exhaustive enumeration of (L,B,key,devices) on the real code with index-valued data",
}
