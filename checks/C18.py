"""C18 — losses compute their definition, pair blocks by type and are symmetry-invariant.

loss in {smse (mean/None), timestep_smse (mean/max/None), normalized_smse} x signature x batch x steps x shape x d,
with BOTH arguments in every storage state (every insertion order, eager and after a jit pass); every g in B_d.
Oracle: float64 numpy definitions; exact 0 on equal arguments; sum over steps == total; >= 0; g-invariance.
"""
import itertools as it

import numpy as np

from vlib.gj import viol, rng_for
from vlib.ref import group as G
from vlib.ref.action import ref_action

ID = "C18"
LEVEL = "model_checking"
DESIGN_REF = "DESIGN.md §4 C18"
RULE = (
    "one case per (d, signature, batch, steps, shape); storage states of each argument = every insertion order x "
    "{eager, jit round trip}; EVERY ordered pair of (prediction state, target state) is evaluated with every loss and "
    "reduce mode and compared with the float64 definition; states = storage states, transitions = loss evaluations, "
    "traces = state pairs. Non-trivial = the two arguments are stored in different orders (counted); distinct = case."
)
ASSUMPTIONS = [
    "L1: losses are quadratic (not multilinear) so real inputs are 'generic' draws derived from VERIF_SEED plus structured (equal, zero) inputs; the discrete space (storage states, reduce modes, g) is exhausted",
    "tolerance 5e-5 relative to the float64 definition (float32 accumulation); equality on equal arguments is exact 0",
    "blocks of different types have O(1) different means so a mis-pairing changes the loss by O(1) or raises",
]

SIGS = {
    "two-scalars": [((0, 0), 1), ((0, 1), 1)],
    "scalar-vector": [((1, 0), 1), ((0, 0), 2)],
    "three": [((0, 1), 1), ((1, 0), 2), ((0, 0), 1)],
    "tensor": [((2, 0), 1), ((1, 1), 2)],
}


def bounds(tier):
    return {
        "d": [2, 3],
        "signatures": {k: str(v) for k, v in SIGS.items()},
        "batch": [1, 2, 3],
        "steps": [1, 2, 3],
        "shapes": {"2": ["(3,3)", "(2,4)"], "3": ["(2,2,2)", "(2,1,3)"]},
        "storage_states": "every insertion order x {eager, jit}",
        "group": "all of B_d on the canonical state",
        "reduce": {"smse": ["mean", None], "timestep": ["mean", "max", None]},
    }


def cases(tier, seed):
    out = []
    for d in (2, 3):
        shapes = [(3, 3), (2, 4)] if d == 2 else [(2, 2, 2), (2, 1, 3)]
        for sname in SIGS:
            for batch in (1, 2, 3):
                for steps in (1, 2, 3):
                    for sp in shapes:
                        if tier == "quick" and d == 3 and (batch + steps) % 2 == 1:
                            continue
                        out.append({"d": d, "sig": sname, "batch": batch, "steps": steps, "shape": list(sp), "cost": 4 if len(SIGS[sname]) == 3 else 1})
    return out


def _smse(x, y, npix):
    return sum(((x[k].astype(np.float64) - y[k]) ** 2).reshape(x[k].shape[0], -1).sum(1) for k in x) / npix


def _timestep(x, y, npix, steps):
    tot = 0
    for k in x:
        a = x[k].astype(np.float64).reshape((x[k].shape[0], -1, steps) + x[k].shape[2:])
        b = y[k].astype(np.float64).reshape(a.shape)
        tot = tot + ((a - b) ** 2).sum(axis=(1,) + tuple(range(3, a.ndim))) / npix
    return tot


def _normalized(x, y, npix, D, eps=1e-5):
    tot = 0
    for k in x:
        a, b = x[k].astype(np.float64), y[k].astype(np.float64)
        comp = tuple(range(2 + D, a.ndim))
        num = ((a - b) ** 2).sum(axis=comp) if comp else (a - b) ** 2
        den = (b**2).sum(axis=comp) if comp else b**2
        tot = tot + (num / (den + eps)).reshape(a.shape[0], -1).sum(1) / npix
    return tot.mean()


def run_case(case, seed):
    import jax
    import jax.numpy as jnp
    import ginjax.geometric as geom
    import ginjax.ml as ml

    D, sp, B, S = case["d"], tuple(case["shape"]), case["batch"], case["steps"]
    sig = SIGS[case["sig"]]
    npix = int(np.prod(sp))
    rng = rng_for(seed, "C18", repr(sorted(case.items())))
    v = []
    cnt = {"trans": 0, "pairs": 0}
    TOL = 5e-5

    def bad(fp, msg):
        if len(v) < 5:
            v.append(viol(fp, msg, case=case))

    means = {(0, 0): 0.0, (0, 1): 3.0, (1, 0): -2.0, (1, 1): 1.5, (2, 0): -0.75}
    X = {kp: (rng.normal(size=(B, c * S) + sp + (D,) * kp[0]) + means[kp]).astype(np.float32) for kp, c in sig}
    Y = {kp: (rng.normal(size=(B, c * S) + sp + (D,) * kp[0]) + means[kp] + 0.5).astype(np.float32) for kp, c in sig}
    keys = [kp for kp, _ in sig]

    def states(blocks):
        out = []
        for order in it.permutations(keys):
            m = geom.MultiImage({kp: jnp.asarray(blocks[kp]) for kp in order}, D, True)
            out.append((order, "eager", m))
        out.append((tuple(keys), "jit", jax.jit(lambda z: z)(out[0][2])))
        return out

    SX, SY = states(X), states(Y)
    e_smse = _smse(X, Y, npix)
    e_ts = _timestep(X, Y, npix, S)
    e_norm = _normalized(X, Y, npix, D)

    def close(a, b):
        a, b = np.asarray(a, dtype=np.float64), np.asarray(b, dtype=np.float64)
        return a.shape == b.shape and np.all(np.abs(a - b) <= TOL * (1.0 + np.abs(b)))

    ntpairs = 0
    for ox, hx, mx in SX:
        for oy, hy, my in SY:
            cnt["pairs"] += 1
            diff = list(mx.keys()) != list(my.keys())
            ntpairs += diff
            tag = "reordered" if diff else "same-order"
            try:
                got = {
                    "smse/mean": ml.smse_loss(mx, my),
                    "smse/None": ml.smse_loss(mx, my, reduce=None),
                    "ts/mean": ml.timestep_smse_loss(mx, my, S),
                    "ts/max": ml.timestep_smse_loss(mx, my, S, reduce="max"),
                    "ts/None": ml.timestep_smse_loss(mx, my, S, reduce=None),
                    "norm": ml.normalized_smse_loss(mx, my),
                }
            except Exception as e:
                bad(f"C18/exception/{tag}", f"loss raised {type(e).__name__} for prediction order {list(mx.keys())} / target order {list(my.keys())}: {str(e)[:120]}")
                continue
            cnt["trans"] += 6
            exp = {
                "smse/mean": e_smse.mean(),
                "smse/None": e_smse,
                "ts/mean": e_ts.mean(0),
                "ts/max": e_ts[int(np.argmax(e_ts.sum(1)))],
                "ts/None": e_ts,
                "norm": e_norm,
            }
            for name in got:
                if not close(got[name], exp[name]):
                    bad(f"C18/{name}/{tag}", f"{name} = {np.asarray(got[name]).ravel()[:3]} but definition gives {np.asarray(exp[name]).ravel()[:3]} (prediction order {list(mx.keys())}, target order {list(my.keys())})")
                if np.any(np.asarray(got[name]) < 0):
                    bad(f"C18/{name}/negative", "negative loss")
            if not close(np.asarray(got["ts/None"]).sum(1), np.asarray(got["smse/None"])):
                bad("C18/ts/sum-over-steps", "sum over time steps != total smse")
    # exactly zero on equal arguments, in every pair of storage states of the same contents
    for ox, hx, mx in SX:
        for ox2, hx2, mx2 in SX:
            cnt["trans"] += 3
            z = [float(ml.smse_loss(mx, mx2)), float(jnp.sum(ml.timestep_smse_loss(mx, mx2, S))), float(ml.normalized_smse_loss(mx, mx2))]
            if any(q != 0.0 for q in z):
                bad("C18/zero-on-equal/" + ("reordered" if list(mx.keys()) != list(mx2.keys()) else "same-order"), f"loss of equal arguments = {z} for orders {list(mx.keys())} / {list(mx2.keys())}")
    # invariance under a common group element (reference action, canonical storage state)
    for g in G.Bd(D):
        gx = geom.MultiImage({kp: jnp.asarray(ref_action(X[kp], kp[1], g, D, lead=2)) for kp in keys}, D, True)
        gy = geom.MultiImage({kp: jnp.asarray(ref_action(Y[kp], kp[1], g, D, lead=2)) for kp in keys}, D, True)
        cnt["trans"] += 3
        if not close(ml.smse_loss(gx, gy), e_smse.mean()) or not close(ml.timestep_smse_loss(gx, gy, S), e_ts.mean(0)) or not close(ml.normalized_smse_loss(gx, gy), e_norm):
            bad("C18/g-invariance", f"loss changes under a common group element g={g.tolist()}")
    return {
        "violations": v,
        "nt": ntpairs > 0,
        "evals": cnt["trans"],
        "states": len(SX) + len(SY),
        "transitions": cnt["trans"],
        "traces": cnt["pairs"],
        "outcome": f"d{D}/{case['sig']}/B{B}/S{S}",
    }


CLAIM = {
    "text": "Every pair of storage states (all insertion orders, eager and after jit) of prediction and target is fed to all three losses in every reduce mode and compared with float64 definitions, for every signature/batch/steps/shape/d cell; exact zero on equal arguments across storage states; invariance under every g in B_d via the independent reference action.",
    "note": "L1: real values are generic draws from VERIF_SEED (the loss is quadratic); tolerance 5e-5 relative. Trusted: numpy float64 definitions.",
    "technique": "exhaustive enumeration of storage-state pairs x reduce modes x group elements on the real code against a float64 reference",
}
