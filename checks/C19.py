"""C19 — stopping conditions stop training exactly when specified, for any loss history.

Model checking of a small state machine: the REAL condition object is driven, in lock step with a boring reference
machine, through EVERY loss history over a small ordered alphabet up to a length bound (a tree; the object is
cloned per branch, histories end where the reference says training stops). Invariant at every node:
stop() return value == reference, best_model token == reference token.
Plus real runs of ml.train on a one-parameter model whose loss follows a decreasing-then-flat schedule.
"""
import copy
import itertools as it

import numpy as np

from vlib.gj import viol

ID = "C19"
LEVEL = "model_checking"
DESIGN_REF = "DESIGN.md §4 C19"
# exact in float32; with min_delta=0.25 hits 'improves by exactly delta' and creeping decreases; 0.0 is a legal loss too
ALPHABET = [1.0, 0.875, 0.75, 0.625, 0.5, 0.0]
RULE = (
    "one case per (condition, patience, min_delta, scalar representation, unmonitored loss, verbose); inside a case "
    "ALL loss histories over the alphabet up to the depth bound are explored as a tree on the real object (cloned "
    "per branch), in product with the reference machine; states = distinct canonical object states "
    "(best, epochs_since_best, best_model) reached, transitions = stop() calls, traces = complete histories. "
    "Non-trivial case = at least one history stops and at least one does not stop within the bound."
)
ASSUMPTIONS = [
    "reference semantics: improvement <=> loss < best - min_delta where best is the last counted improvement (the documented meaning of min_delta); stop <=> more than `patience` consecutive non-improving epochs",
    "histories bounded by depth (quick 5, thorough 7) over a 6-letter alphabet (incl. a loss of exactly 0); patience 0..3",
    "train() runs use one device, sgd, a one-parameter model with piecewise-linear loss (so the loss schedule is known exactly)",
]


def bounds(tier):
    return {
        "alphabet": ALPHABET,
        "depth": 5 if tier == "quick" else 7,
        "patience": [0, 1, 2, 3],
        "min_delta": [0, 0.25],
        "representation": ["float", "np.float32", "np.float64", "jax0d"],
        "conditions": ["TrainLoss", "ValLoss", "EpochStop"],
        "epochs(EpochStop)": [0, 1, 2, 3, 4],
        "train_runs": "TrainLoss/ValLoss/EpochStop x patience 0..2 on a decreasing-then-flat schedule, horizon patience+drop+4",
    }


def cases(tier, seed):
    depth = 5 if tier == "quick" else 7
    out = []
    for cond in ("TrainLoss", "ValLoss"):
        for rep in ("float", "np.float32", "np.float64", "jax0d"):
            for patience in (0, 1, 2, 3):
                for delta in (0, 0.25):
                    for other in ("none", "noise"):
                        out.append({"kind": "tree", "cond": cond, "rep": rep, "patience": patience, "delta": delta, "other": other, "verbose": 0, "depth": depth if rep != "jax0d" else min(depth, 6)})
            out.append({"kind": "tree", "cond": cond, "rep": rep, "patience": 1, "delta": 0.25, "other": "noise", "verbose": 1, "depth": 4})
    for epochs in range(5):
        for rep in ("float", "jax0d"):
            out.append({"kind": "epoch", "epochs": epochs, "rep": rep, "depth": 5})
    for epochs in (0, 1, 2):
        out.append({"kind": "train", "cond": "EpochStop", "patience": 0, "drop": 3, "epochs": epochs, "cost": 30})
    for cond in ("TrainLoss", "ValLoss", "EpochStop"):
        for patience in (0, 1, 2):
            for drop in (1, 3, 8):  # drop=8: the loss reaches exactly 0 and stays there
                if drop == 8 and patience != 1:
                    continue
                out.append({"kind": "train", "cond": cond, "patience": patience, "drop": drop, "cost": 30})
    for c in out:
        c.setdefault("cost", 4 if c.get("rep") == "jax0d" else 1)
    return out


def _rep(x, rep):
    if rep == "float":
        return float(x)
    if rep == "np.float32":
        return np.float32(x)
    if rep == "np.float64":
        return np.float64(x)
    import jax.numpy as jnp

    return jnp.asarray(x, dtype=jnp.float32)


class RefPatience:
    def __init__(self, patience, delta):
        self.patience, self.delta = patience, delta
        self.best, self.count, self.best_model = float("inf"), 0, None

    def step(self, token, loss):
        if loss is None:
            return False
        if loss < self.best - self.delta:
            self.best, self.best_model, self.count = loss, token, 0
        else:
            self.count += 1
        return self.count > self.patience


def _clone(obj):
    return copy.copy(obj)


def _canon(obj, attr):
    return (float(getattr(obj, attr)), int(obj.epochs_since_best), obj.best_model)


def _tree(case):
    import ginjax.ml as ml

    cls = getattr(ml, case["cond"])
    attr = "best_train_loss" if case["cond"] == "TrainLoss" else "best_val_loss"
    root = cls(patience=case["patience"], min_delta=case["delta"], verbose=case["verbose"])
    ref0 = RefPatience(case["patience"], case["delta"])
    v, states = [], set()
    counters = {"transitions": 0, "traces": 0, "stopped": 0, "open": 0}

    def call(obj, token, epoch, loss):
        other = None if case["other"] == "none" else _rep(ALPHABET[(epoch * 3) % len(ALPHABET)] * 7.0, case["rep"])
        mon = None if loss is None else _rep(loss, case["rep"])
        tl, vl = (mon, other) if case["cond"] == "TrainLoss" else (other, mon)
        counters["transitions"] += 1
        return obj.stop(token, epoch, tl, vl, 0.01)

    # the call the training loop makes before the first epoch
    obj = _clone(root)
    obj.best_model = "m0"  # train() stores the initial model first
    ref = copy.copy(ref0)
    ref.best_model = "m0"
    r = call(obj, "m0", 0, None)
    if bool(r) is not False:
        v.append(viol("C19/initial-call", "stop() returned True on the initial call with no loss", case=case))

    def rec(obj, ref, hist):
        states.add(_canon(obj, attr))
        if len(hist) == case["depth"]:
            counters["traces"] += 1
            counters["open"] += 1
            return
        for loss in ALPHABET:
            o2, r2 = _clone(obj), copy.copy(ref)
            epoch = len(hist) + 1
            token = f"m{epoch}"
            got = call(o2, token, epoch, loss)
            exp = r2.step(token, loss)
            h2 = hist + [loss]
            if bool(got) != exp:
                kind = "early" if (bool(got) and not exp) else "late"
                if len(v) < 5:
                    v.append(viol(f"C19/{case['cond']}/stop-{kind}/rep={case['rep']}", f"{case['cond']}(patience={case['patience']}, min_delta={case['delta']}) history {h2}: stop()={bool(got)} expected {exp}", case=case, history=h2))
                counters["traces"] += 1
                continue
            if o2.best_model != r2.best_model:
                if len(v) < 5:
                    v.append(viol(f"C19/{case['cond']}/best-model/rep={case['rep']}", f"history {h2}: best_model={o2.best_model} expected {r2.best_model}", case=case, history=h2))
            if exp:
                states.add(_canon(o2, attr))
                counters["traces"] += 1
                counters["stopped"] += 1
                continue
            rec(o2, r2, h2)

    rec(obj, ref, [])
    # instances must not share state: a fresh condition built after all of the above behaves like the first one did
    fresh = cls(patience=case["patience"], min_delta=case["delta"], verbose=case["verbose"])
    if fresh.best_model is not None or int(fresh.epochs_since_best) != 0 or not np.isinf(float(getattr(fresh, attr))):
        v.append(viol(f"C19/{case['cond']}/shared-state", "a newly constructed stop condition is not in its initial state (state shared between instances)", case=case))
    return {
        "violations": v,
        "nt": counters["stopped"] > 0 and counters["open"] > 0,
        "evals": counters["traces"],
        "states": len(states),
        "transitions": counters["transitions"],
        "traces": counters["traces"],
        "outcome": f"{case['cond']}/p{case['patience']}/stopped={counters['stopped'] > 0}/open={counters['open'] > 0}",
    }


def _epoch(case):
    import ginjax.ml as ml

    v = []
    trans = traces = 0
    states = set()
    # the order of the losses cannot matter: all histories over a 2-letter sub-alphabet
    for hist in it.product(ALPHABET[:2], repeat=case["depth"]):
        obj = ml.EpochStop(case["epochs"], verbose=0)
        obj.best_model = "m0"
        seq = [(0, None)] + [(i + 1, l) for i, l in enumerate(hist)]
        for epoch, loss in seq:
            token = f"m{epoch}"
            mon = None if loss is None else _rep(loss, case["rep"])
            got = obj.stop(token, epoch, mon, None, 0.01)
            trans += 1
            exp = epoch >= case["epochs"]
            states.add((epoch, obj.best_model))
            if bool(got) != exp:
                v.append(viol("C19/EpochStop/stop-" + ("early" if got else "late"), f"EpochStop({case['epochs']}) at epoch {epoch}: stop()={bool(got)} expected {exp}", case=case))
                break
            if obj.best_model != token:
                v.append(viol("C19/EpochStop/best-model", f"EpochStop best_model={obj.best_model} expected last model {token}", case=case))
                break
            if exp:
                break
        traces += 1
        if len(v) >= 3:
            break
    return {"violations": v, "nt": 0 < case["epochs"] <= case["depth"], "evals": traces, "states": len(states), "transitions": trans, "traces": traces, "outcome": f"EpochStop/{case['epochs']}"}


class HorizonExceeded(Exception):
    pass


def _train(case):
    """Real ml.train run: loss(w) = max(1 - w, floor), sgd lr=0.125, one batch per epoch."""
    import equinox as eqx
    import jax
    import jax.numpy as jnp
    import jax.random as random
    import optax
    import ginjax.geometric as geom
    import ginjax.ml as ml
    import ginjax.models as models

    drop, patience = case["drop"], case["patience"]
    lr = 0.125
    floor = 1.0 - drop * lr  # loss decreases for `drop` epochs then stays flat

    class Tiny(models.MultiImageModule):
        w: jax.Array

        def __init__(self):
            self.w = jnp.zeros(())

        def __call__(self, x, aux_data=None):
            return x, aux_data

    def map_and_loss(model, x, y, aux_data):
        # piecewise linear, the kink lies between two reachable parameter values (no tie in the gradient)
        return jnp.where(model.w < (drop - 0.5) * lr, 1.0 - model.w, floor), aux_data

    horizon = patience + drop + 6
    base = getattr(ml, case["cond"])
    calls = []

    class Mon(base):
        def stop(self, model, epoch, tl, vl, t):
            if len(calls) > horizon:
                raise HorizonExceeded()
            r = super().stop(model, epoch, tl, vl, t)
            calls.append((epoch, float(model.w), None if tl is None else float(tl), None if vl is None else float(vl), bool(r)))
            return r

    n_epochs = case.get("epochs", 3)
    cond = Mon(n_epochs) if case["cond"] == "EpochStop" else Mon(patience=patience, min_delta=0)
    X = geom.MultiImage({(0, 0): jnp.ones((2, 1, 2, 2))}, 2)
    v = []
    try:
        best, _, tl, vl = ml.train(X, X, map_and_loss, Tiny(), random.PRNGKey(0), cond, 2, optax.sgd(lr), validation_X=X, validation_Y=X)
    except HorizonExceeded:
        v.append(viol(f"C19/train/{case['cond']}/no-termination", f"ml.train with {case['cond']}(patience={patience}) did not stop within {horizon} epochs on a loss that is flat after {drop} epochs", case=case, calls=calls))
        return {"violations": v, "nt": True, "evals": 1, "states": len(calls), "transitions": len(calls), "traces": 1, "outcome": "train/no-termination"}
    # reference: w_n = min(n, drop) * lr after n updates; train loss of epoch n is evaluated at w_{n-1}, val loss at w_n
    w = lambda n: min(n, drop) * lr
    L = lambda n: max(1.0 - w(n), floor)
    if case["cond"] == "EpochStop":
        exp_epoch, exp_w = n_epochs, w(n_epochs)
    else:
        ref = RefPatience(patience, 0)
        n = 0
        while True:
            n += 1
            mon = L(n - 1) if case["cond"] == "TrainLoss" else L(n)
            if ref.step(n, mon):
                break
        exp_epoch, exp_w = n, w(ref.best_model)
    got_epoch = calls[-1][0]
    if got_epoch != exp_epoch:
        v.append(viol(f"C19/train/{case['cond']}/stop-" + ("early" if got_epoch < exp_epoch else "late"), f"ml.train stopped after epoch {got_epoch}, expected {exp_epoch}", case=case, calls=calls))
    elif abs(float(best.w) - exp_w) > 1e-6:
        v.append(viol(f"C19/train/{case['cond']}/best-model", f"ml.train returned model w={float(best.w)}, expected the best-epoch model w={exp_w}", case=case, calls=calls))
    return {"violations": v, "nt": True, "evals": 1, "states": len(calls), "transitions": len(calls), "traces": 1, "outcome": f"train/{case['cond']}/stopped@{got_epoch}"}


def run_case(case, seed):
    return {"tree": _tree, "epoch": _epoch, "train": _train}[case["kind"]](case)


CLAIM = {
    "text": "Explicit-state exploration of the stop-condition state machine: the real TrainLoss/ValLoss/EpochStop objects are driven through every loss history over a 6-letter alphabet (incl. a loss of exactly 0) up to depth 5 (quick) / 7 (thorough) for every patience, min_delta and scalar representation, in product with a reference machine; the return value and best_model are compared at every transition. Real ml.train runs on a scheduled loss check termination epoch and the returned model.",
    "note": "Trusted: the reference machine (10 lines, documented semantics of patience/min_delta). Histories longer than the bound and patience > 3 are not explored.",
    "technique": "explicit-state model checking of the real object in lock step with a reference machine over all bounded input histories",
}
