"""C20 — every model maps its input signature to exactly its requested output signature.

Programs: class x equivariant flag x signatures (several types, pseudo types, unequal channels, unsorted key
order) x depth x size x num_conv x norm x bias x activation x kernel x d x all 2^d flags x extents, plus the
wrappers ModelWrapper / GroupAverage / Climate1D. A signature-propagation reference (vlib/ref/signature.py) decides
per cell: defined (expected output types in requested order restricted to reachable ones), unsupported (library
raises NotImplementedError) or unstable (ill-typed residual sum / skip concat: outside the alphabet, counted).
On defined cells the real model must return exactly that, and the intermediate layer outputs recorded by the
trace monitor are compared with the propagation model (conformance of the model to the code; recorded, not a verdict).
"""
import itertools as it

import numpy as np

from checks import _models as MD
from vlib import explore
from vlib.gj import viol, rng_for
from vlib.ref import signature as SG

ID = "C20"
LEVEL = "exploration"
DESIGN_REF = "DESIGN.md §4 C20"
RULE = (
    "architecture cells enumerated by deviations from the default cell, every one classified by the propagation "
    "reference; defined cells are built and executed once with the trace monitor on; wrappers in separate cases. "
    "evaluations = model applications. Non-trivial = defined cell whose output was produced and compared; "
    "distinct = distinct cell. Unstable/unsupported cells are counted as disabled and never as passes."
)
ASSUMPTIONS = [
    "the propagation reference encodes: ConvContract reaches target t iff some present input type s has a filter of type (k_s+k_t, p_s+p_t) in the bank; norm/nonlinearity/pool keep the type set; residual sums and skip concats need equal type sets",
    "L2: d in {2,3}; depth<=2; size<=2; num_conv<=2; deviation bound quick 2 (d=2 and d=3), thorough 3 (d=3: 2)",
    "values are not compared here (C07/C11/C14 do that); only types, order, channels, extents, D, flags and component placement",
]

SIG_EXTRA = {
    "s->v": ([((0, 0), 2)], [((1, 0), 1)]),
    "v->sp": ([((1, 0), 1)], [((0, 0), 2), ((0, 1), 1)]),
    "sp->sp": ([((0, 1), 1), ((0, 0), 2)], [((0, 0), 1), ((0, 1), 2)]),  # scalar<->pseudoscalar has no M=3 filter: unstable for ResNets
    "t2": ([((2, 0), 1), ((0, 0), 1)], [((2, 0), 1), ((1, 0), 2)]),
    "out-unsorted": ([((0, 0), 1), ((1, 0), 1)], [((1, 0), 2), ((0, 1), 1), ((0, 0), 1)]),
    "s->pv": ([((0, 0), 2)], [((0, 1), 1), ((1, 0), 2)]),  # (0,1) is not reachable from a scalar in one layer
}
MD.SIGS2.update(SIG_EXTRA)


def _dims(d):
    flags = [list(f) for f in it.product([True, False], repeat=d)]
    return {
        "cls": ["ResNet", "DilResNet", "UNet", "ConvBlock", "ConvBlockPre"],
        "equivariant": [True, False],
        "sig": ["sv", "v", "svp", "pv", "vs-unsorted", "s", "s->v", "v->sp", "sp->sp", "t2", "out-unsorted", "s->pv"],
        "depth": [2, 1],
        "size": [1, 2],
        "num_conv": [1, 2],
        "act": ["gelu", "relu", "tanh"],
        "norm": [False, True, "batch"],
        "preact": [False, True],
        "bias": ["auto", "mean", False, True, "scalar"],
        "kernel": [3, 1],
        "flags": flags,
        "ext": [[4] * d, [4] * (d - 1) + [8], [6] * d],
    }


def bounds(tier):
    return {"dims": _dims(2), "deviation_bound": {"quick": {"d2": 2, "d3": 2}, "thorough": {"d2": 3, "d3": 2}}[tier], "centres": ["equivariant ResNet (default)", "conventional U-Net"], "wrappers": ["ModelWrapper(identity) eager, jit, vmap", "GroupAverage", "Climate1D"]}


def _normalise(c):
    c = dict(c)
    if c["cls"] != "ResNet":
        c["preact"] = False
    if c["cls"] in ("ConvBlock", "ConvBlockPre"):
        c["size"], c["num_conv"], c["depth"] = 1, 1, 2
    if c["cls"] == "DilResNet":
        c["num_conv"] = 1
    if c["norm"] == "batch" and (c["equivariant"] or c["cls"] not in ("UNet", "ConvBlock", "ConvBlockPre")):
        c["norm"] = True  # batch norm exists only for the conventional U-Net / conv block
    if c["equivariant"]:
        c["kernel"] = 3
    else:
        if c["bias"] in ("mean", "scalar"):
            c["bias"] = "auto"  # conventional layers only know bool / 'auto'
    return c


def cases(tier, seed):
    plan = {"quick": {2: 2, 3: 2}, "thorough": {2: 3, 3: 2}}[tier]
    out = []
    for d in (2, 3):
        for cell, dev in explore.cells(_dims(d), plan[d]):
            out.append(_normalise(dict(cell, d=d, kind="model", dev=dev)))
    # second centre: the conventional U-Net (the conventional path is a different code path end to end), again with
    # every cell within the deviation bound around it
    dims2 = dict(_dims(2))
    dims2["equivariant"] = [False, True]
    dims2["cls"] = ["UNet"] + [c for c in dims2["cls"] if c != "UNet"]
    for cell, dev in explore.cells(dims2, plan[2]):
        out.append(_normalise(dict(cell, d=2, kind="model", dev=dev + 2)))
    out = explore.dedupe(out, lambda c: repr(sorted((k, v) for k, v in c.items() if k != "dev")))
    for c in out:
        c["cost"] = (3 if c["cls"] in ("DilResNet", "UNet") else 1) * (4 if c["d"] == 3 else 1)
        c["grp"] = f"{c['d']}/{c['equivariant']}/{c['cls']}"
    for d in (2, 3):
        out.append({"kind": "wrapper", "which": "ModelWrapper", "d": d, "cost": 6})
    out.append({"kind": "wrapper", "which": "GroupAverage", "d": 2, "cost": 6})
    out.append({"kind": "wrapper", "which": "Climate1D", "d": 2, "cost": 6})
    return out


def _classify(c):
    in_sig, out_sig = MD.SIGS2[c["sig"]]
    if c["cls"] == "ConvBlockPre":
        out_sig = in_sig  # the harness builds pre-activation blocks with input_keys == output_keys (see _models.build)
    if not c["equivariant"]:
        if c["cls"] in ("ConvBlock", "ConvBlockPre"):
            return ("defined", [(0, 0)])
        return ("defined", [tuple(kp) for kp, _ in out_sig])
    from vlib import mlh

    D = c["d"]
    bank_types = set(mlh.bank(D, "B_M3_normalize")[1].keys())
    up_types = set(mlh.bank(D, "B_M2_normalize")[1].keys()) if c["cls"] == "UNet" else None
    if D == 3 and any(kp[0] > 1 for kp, _ in in_sig + out_sig):
        return ("unsupported", "d=3 bank only holds k<=2 filters")
    return SG.propagate(c["cls"], in_sig, out_sig, bank_types, up_types, c["norm"], c["size"], c["num_conv"], c["preact"])


def _wrapper_case(case):
    import jax
    import jax.numpy as jnp
    import ginjax.geometric as geom
    import ginjax.models as models
    from vlib import mlh

    D = case["d"]
    v = []
    evals = 0

    def bad(fp, msg):
        if len(v) < 5:
            v.append(viol(fp, msg, case=case))

    sp = (3, 4) if D == 2 else (2, 3, 2)
    if case["which"] == "ModelWrapper":
        sig = [((1, 0), 2), ((0, 1), 1), ((0, 0), 3), ((2, 0), 1)]
        for in_order in it.permutations(range(len(sig))):
            in_sig = [sig[i] for i in in_order]
            blocks = {}
            off = 1
            for kp, c in in_sig:
                shape = (c,) + sp + (D,) * kp[0]
                blocks[kp] = (np.arange(int(np.prod(shape)), dtype=np.float32) + off).reshape(shape)
                off += 1000
            x = mlh.to_mi(blocks, D, (True,) + (False,) * (D - 1), order=[kp for kp, _ in in_sig])
            for out_order in (in_order, tuple(reversed(in_order)), tuple(sorted(in_order))):
                out_sig = [sig[i] for i in out_order]
                mw = models.ModelWrapper(D, lambda a: a, mlh.sig_tuple(out_sig), x.is_torus)
                for mode in ("eager", "jit", "vmap"):
                    if mode == "eager":
                        y = mw(x)[0]
                    elif mode == "jit":
                        y = jax.jit(lambda z: mw(z)[0])(x)
                    else:
                        xb = mlh.to_mi({kp: np.stack([b, b + 0.5]) for kp, b in blocks.items()}, D, x.is_torus, order=[kp for kp, _ in in_sig])
                        y = jax.vmap(lambda z: mw(z)[0])(xb).get_one(0, keepdims=False)
                    evals += 1
                    if mode == "eager" and list(y.keys()) != [kp for kp, _ in out_sig]:
                        bad("C20/ModelWrapper/order", f"output type order {list(y.keys())} != requested {[kp for kp, _ in out_sig]}")
                    if set(y.keys()) != set(blocks):
                        bad("C20/ModelWrapper/types", f"output types {list(y.keys())}")
                        continue
                    for kp in blocks:
                        if np.asarray(y[kp]).shape != blocks[kp].shape or not np.array_equal(np.asarray(y[kp]), blocks[kp]):
                            bad(f"C20/ModelWrapper/placement/{mode}", f"component placement: identity model does not return block {kp} at its own position (input order {[kp_ for kp_, _ in in_sig]}, requested order {[kp_ for kp_, _ in out_sig]}, {mode})")
                            break
                    if tuple(y.is_torus) != tuple(x.is_torus) or y.D != D:
                        bad("C20/ModelWrapper/meta", "D / flags lost")
    elif case["which"] == "GroupAverage":
        from vlib.ref import group as G

        c = {"d": 2, "cls": "ResNet", "sig": "out-unsorted", "depth": 1, "size": 1, "num_conv": 1, "norm": False, "bias": "auto", "equivariant": False, "kernel": 3}
        inner, in_sig, out_sig, _ = MD.build(c)
        for flags in ((True, False), (False, False), (True, True)):
            x = mlh.to_mi(mlh.make_input(in_sig, 2, (4, 6), rng_for(0, "C20ga"), integer=False), 2, flags)
            for ops in ([np.array(g) for g in G.named_groups(2)["C2^d"]], []):
                for aa, inf in it.product((True, False), repeat=2):
                    y = models.GroupAverage(inner, ops, aa, inf)(x)[0]
                    evals += 1
                    if list(y.keys()) != [tuple(kp) for kp, _ in out_sig]:
                        bad("C20/GroupAverage/order", f"output types {list(y.keys())} != requested {[kp for kp, _ in out_sig]}")
                    if tuple(y.is_torus) != flags or y.get_spatial_dims() != (4, 6) or y.get_signature() != mlh.sig_tuple(out_sig):
                        bad("C20/GroupAverage/meta", f"signature/flags/extents changed: {y.get_signature()} {y.is_torus} {y.get_spatial_dims()}")
    else:  # Climate1D
        nl, nlat = 4, 3
        for out_order in it.permutations([((0, 0), 2), ((1, 0), 1), ((0, 1), 1)]):
            for past, fut in ((1, 1), (2, 1), (2, 2)):
                out_keys = mlh.sig_tuple([(kp, c * fut) for kp, c in out_order])
                in_sig = [(kp, c * past) for kp, c in out_order]

                class Inner(models.MultiImageModule):
                    def __call__(self, x, aux_data=None):
                        # keep `fut` of the `past` steps of every 1-D channel group (types preserved)
                        out = x.empty()
                        for (k, p), blk in x.items():
                            b = blk.reshape((-1, past) + blk.shape[1:])[:, :fut]
                            out.append(k, p, b.reshape((-1,) + blk.shape[1:]))
                        return out, aux_data

                m = models.Climate1D(Inner(), out_keys, past, fut, (nl, nlat), {})
                x = mlh.to_mi(mlh.make_input(in_sig, 2, (nl, nlat), rng_for(0, "C20cl"), integer=True), 2, (True, False), order=[kp for kp, _ in in_sig])
                y = m(x)[0]
                evals += 1
                if list(y.keys()) != [kp for kp, _ in out_order]:
                    bad("C20/Climate1D/order", f"output type order {list(y.keys())} != requested {[kp for kp, _ in out_order]}")
                if dict(y.get_signature()) != dict(out_keys) or y.get_spatial_dims() != (nl, nlat) or tuple(y.is_torus) != (True, False) or y.D != 2:
                    bad("C20/Climate1D/signature", f"output signature {y.get_signature()} != requested {out_keys}")
    return {"violations": v, "nt": True, "evals": evals, "outcome": f"wrapper/{case['which']}"}


def run_case(case, seed):
    if case["kind"] == "wrapper":
        return _wrapper_case(case)
    from vlib import mlh

    D = case["d"]
    cl = _classify(case)
    if case["cls"] == "UNet" and any(e % (2 ** case["size"]) for e in case["ext"]):
        cl = ("unsupported", "extent not compatible with the pooling")
    if cl[0] != "defined":
        # outside the alphabet; the library may or may not raise — never counted as a pass
        return {"status": "disabled", "note": cl[0]}
    v = []
    sp = tuple(case["ext"])
    flags = tuple(case["flags"])
    in_sig = MD.in_signature_for(case)
    exp_types = cl[1]

    def bad(fp, msg, **d):
        if len(v) < 5:
            v.append(viol(fp, msg, case=case, **d))

    mode = "equivariant" if case["equivariant"] else "conventional"
    try:
        model, _, out_sig, _ = MD.build(case)
    except Exception as e:
        bad(f"C20/{mode}/constructor/{type(e).__name__}", f"constructor raised {type(e).__name__}: {str(e)[:160]}")
        return {"violations": v, "nt": True}
    if case["cls"] in ("ConvBlock", "ConvBlockPre") and not case["equivariant"]:
        out_sig = [((0, 0), 3)]
    out_channels = {tuple(kp): c for kp, c in out_sig}
    rng = rng_for(seed, "C20", repr(sorted((k, v) for k, v in case.items() if k != "dev")))
    xb = mlh.make_input(in_sig, D, sp, rng, integer=False)
    x = mlh.to_mi(xb, D, flags, order=[tuple(kp) for kp, _ in in_sig])
    try:
        with mlh.Monitor() as mon:
            y = model(x)
            y = y[0] if isinstance(y, tuple) else y
            trace = mon.take()
    except Exception as e:
        bad(f"C20/{mode}/{case['cls']}/call/{type(e).__name__}", f"a cell the propagation reference calls well-typed raised {type(e).__name__}: {str(e)[:160]}")
        return {"violations": v, "nt": True}
    got_types = list(y.keys())
    if got_types != exp_types:
        if set(got_types) != set(exp_types):
            bad(f"C20/{mode}/{case['cls']}/types", f"output types {got_types}, expected {exp_types} (requested {list(out_channels)})")
        else:
            bad(f"C20/{mode}/{case['cls']}/order", f"output type order {got_types} != requested order {exp_types}")
    for t in exp_types:
        if t in y:
            es = (out_channels[t],) + sp + (D,) * t[0]
            if tuple(np.asarray(y[t]).shape) != es:
                bad(f"C20/{mode}/{case['cls']}/shape", f"block {t} has shape {np.asarray(y[t]).shape}, expected {es}")
    if y.D != D or tuple(y.is_torus) != flags:
        bad(f"C20/{mode}/{case['cls']}/meta", f"output D/flags {y.D}/{y.is_torus} != input {D}/{flags}")
    # ---- layer-by-layer conformance of the abstract propagation model to the implementation (equivariant mode).
    #      These are NOT property violations (the property speaks of input -> output); mismatches are recorded in the
    #      evidence (outcome class) so a drift between the reference model and the code is visible.
    conf = "conforms"
    if case["equivariant"]:
        ncc = sum(1 for n, _ in trace if n == "ConvContract")
        if ncc != SG.n_convcontract_calls(case["cls"], case["size"], case["num_conv"]):
            conf = "trace-length-differs"
        allowed_ext = {tuple(s // (2**l) for s in sp) for l in range(case["size"] + 1)} if case["cls"] == "UNet" else {sp}
        mid = set(SG.union_types(*MD.SIGS2[case["sig"]]))
        for i, (name, mi) in enumerate(trace):
            if mi.D != D or tuple(mi.is_torus) != flags or tuple(mi.get_spatial_dims()) not in allowed_ext or not set(mi.keys()) <= mid:
                conf = f"trace-step-differs:{name}"
                break
    return {"violations": v, "nt": True, "evals": 1, "outcome": f"{mode}/{case['cls']}/d{D}/out={len(exp_types)}/{conf}"}


CLAIM = {
    "text": "Every architecture cell within the deviation bound is classified by an independent signature-propagation model; every defined cell is built and run on the real code and must return exactly the predicted output types, in requested order, with requested channels, the input's extents, D and flags; intermediate layer outputs are checked by a trace monitor; component placement of the conventional path through ModelWrapper in every key order, eagerly and under jit/vmap; GroupAverage and Climate1D wrappers.",
    "note": "Trusted: vlib/ref/signature.py (60 lines). Unstable/unsupported cells are counted, not passed.",
    "technique": "deviation-bounded exhaustive enumeration of constructor settings against an abstract type-propagation model, validated layer by layer",
}
