"""Shared alphabet and construction for the ConvContract checks (C06 equivariance, C11 defining sum)."""
import numpy as np

from vlib import explore

# signatures: (input list, target list); key order as listed
T6 = [(0, 0), (0, 1), (1, 0), (1, 1), (2, 0), (2, 1)]
SIGS = {
    "sv->sv": ([((0, 0), 2), ((1, 0), 1)], [((0, 0), 1), ((1, 0), 3)]),
    "vs->vs": ([((1, 0), 1), ((0, 0), 2)], [((1, 0), 3), ((0, 0), 1)]),  # same, key order permuted
    "pseudo3": ([((0, 1), 1), ((1, 1), 2), ((2, 0), 1)], [((2, 1), 1), ((0, 0), 2)]),
    "mixed3": ([((1, 0), 2), ((0, 0), 3), ((2, 0), 1)], [((1, 1), 2), ((0, 1), 1), ((1, 0), 1)]),
    "ps-first": ([((0, 1), 1), ((0, 0), 2)], [((0, 0), 1), ((0, 1), 2), ((1, 0), 1)]),  # first input skips the first target at M=3
    # one common channel count on each side (what a fused single-convolution path would require), unsorted key order
    "eq-vs->vs": ([((1, 0), 2), ((0, 0), 2)], [((1, 0), 2), ((0, 0), 2)]),
    "eq-sv->tvs": ([((0, 0), 1), ((1, 0), 1)], [((2, 0), 2), ((1, 0), 2), ((0, 0), 2)]),
}
for a in T6:
    for b in T6:
        SIGS[f"{a[0]}{a[1]}->{b[0]}{b[1]}"] = ([(a, 2)], [(b, 1)])
SIGS3 = {
    "sv->sv": ([((0, 0), 2), ((1, 0), 1)], [((0, 0), 1), ((1, 0), 2)]),
    "vs->vs": ([((1, 0), 1), ((0, 0), 2)], [((1, 0), 2), ((0, 0), 1)]),
    "pseudo": ([((0, 1), 1), ((1, 1), 1)], [((1, 0), 1), ((0, 0), 2)]),
    "eq-vs->vs": ([((1, 0), 2), ((0, 0), 2)], [((1, 0), 1), ((0, 0), 1)]),
}
for a in T6[:4]:
    for b in T6[:4]:
        SIGS3[f"{a[0]}{a[1]}->{b[0]}{b[1]}"] = ([(a, 2)], [(b, 1)])


def dims(d, with_stride):
    if d == 2:
        dd = {
            "sig": list(SIGS),
            "bank": ["B_M3_one", "B_M3_normalize", "C2_M3_one", "B_M2_one", "SO_M3_one"],
            "bias": ["auto", "mean", "scalar", True, False],
            "flags": [[True, True], [False, False], [True, False], [False, True]],
            "pad": [None, "SAME", "VALID", [[1, 1], [2, 2]], [[1, 1], [1, 1]]],
            "rhs": [1, 2, [1, 2], 3],
            "lhs": [None, [2, 2]],
            "ext": [[4, 4], [3, 5], [2, 5]],  # extent 2 < wrap reach of a 3-filter at dilation 3
        }
    else:
        dd = {
            "sig": list(SIGS3),
            "bank": ["B_M3_one", "B_M3_normalize", "C2_M3_one"],
            "bias": ["auto", "mean", "scalar", True, False],
            "flags": [[True, True, True], [False, False, False], [True, False, False]],
            "pad": [None, "SAME", "VALID", [[1, 1], [1, 1], [1, 1]]],
            "rhs": [1, 2, 3],
            "lhs": [None, [2, 2, 2]],
            "ext": [[3, 3, 3], [2, 3, 4]],
        }
    if with_stride:
        dd["stride"] = [1, 2]
    return dd


def enabled(c):
    even = "_M2_" in c["bank"]
    if even and c["pad"] in (None, "SAME", "TORUS"):
        return False
    return True


def sigs(c):
    return (SIGS if c["d"] == 2 else SIGS3)[c["sig"]]


def _t(x):
    if isinstance(x, list):
        return tuple(_t(v) for v in x)
    return x


def build(c, key_int=0):
    """construct the real layer for a cell. Returns (layer, bank_np, stabiliser, in_sig, out_sig)"""
    import jax.random as random
    import ginjax.ml as ml
    from vlib import mlh

    D = c["d"]
    bank_mi, bank_np, stab = mlh.bank(D, c["bank"])
    in_sig, out_sig = sigs(c)
    layer = ml.ConvContract(
        mlh.sig_tuple(in_sig),
        mlh.sig_tuple(out_sig),
        bank_mi,
        use_bias=c["bias"],
        stride=_t(c.get("stride", 1)),
        padding=_t(c["pad"]),
        lhs_dilation=_t(c["lhs"]),
        rhs_dilation=_t(c["rhs"]),
        key=random.PRNGKey(key_int),
    )
    return layer, bank_np, stab, in_sig, out_sig


CENTRE2 = {"sig": "pseudo3", "bank": "B_M3_normalize", "bias": "mean", "flags": [True, False], "pad": "SAME", "rhs": 2, "lhs": None, "ext": [3, 5]}


def gen_cases(tier, plan, with_stride):
    out = []
    for d in (2, 3):
        for cell, dev in explore.cells(dims(d, with_stride), plan[d]):
            c = dict(cell, d=d, dev=dev)
            out.append(c)
    # second centre: every cell within 2 deviations of a non-default corner (pseudo types, normalised bank, mean
    # bias, mixed flags, SAME padding, dilation 2, non-square)
    c2 = dict(CENTRE2, **({"stride": 2} if with_stride else {}))
    for cell, dev in explore.cells(explore.recentre(dims(2, with_stride), c2), 3 if tier == "thorough" else 2):
        out.append(dict(cell, d=2, dev=dev + 10))
    out = explore.dedupe(out, lambda c: repr(sorted((k, str(v)) for k, v in c.items() if k != "dev")))
    for c in out:
        c["grp"] = f"{c['d']}/{c['bank']}"
        c["cost"] = 5 if c["d"] == 3 else 1
    return out
