"""Shared architecture alphabet / builder for the model-level checks (C07, C09, C14, C20)."""
import numpy as np

SIGS2 = {
    "sv": ([((0, 0), 1), ((1, 0), 1)], [((0, 0), 1), ((1, 0), 1)]),
    "v": ([((1, 0), 2)], [((1, 0), 1)]),
    "svp": ([((0, 0), 1), ((1, 0), 1), ((0, 1), 1)], [((1, 0), 1), ((0, 1), 1)]),
    "pv": ([((1, 1), 1), ((0, 0), 2)], [((1, 1), 1)]),
    "vs-unsorted": ([((1, 0), 1), ((0, 0), 2)], [((1, 0), 2), ((0, 0), 1)]),
    "s": ([((0, 0), 2)], [((0, 0), 1)]),
    # order-0 types only, one of them a pseudoscalar: no tensor-valued type anywhere in the network
    "sp": ([((0, 0), 1), ((0, 1), 2)], [((0, 1), 1), ((0, 0), 1)]),
    "p": ([((0, 1), 2)], [((0, 1), 1)]),
}


def build(case, key_int=1):
    """Construct the real model for an architecture cell.

    case keys: d, cls in {ResNet, DilResNet, UNet, ConvBlock, ConvBlockPre}, sig, depth, size (blocks/downsamples),
    num_conv, act, norm, preact, bias, bank in {B, C2}, equivariant (default True), kernel (conventional only)
    Returns (model, in_sig, out_sig, group)"""
    import jax.random as random
    import ginjax.geometric as geom
    import ginjax.models as models
    from vlib import mlh

    D = case["d"]
    eq = case.get("equivariant", True)
    in_sig, out_sig = SIGS2[case["sig"]]
    ins, outs = mlh.sig_tuple(in_sig), mlh.sig_tuple(out_sig)
    if eq:
        bank_mi, bank_np, stab = mlh.bank(D, f"{case.get('bank', 'B')}_M3_normalize")
        up_mi, up_np, up_stab = mlh.bank(D, f"{case.get('bank', 'B')}_M2_normalize") if case["cls"] == "UNet" else (None, None, stab)
        from vlib.ref.group import gkey

        up_keys = {gkey(g) for g in up_stab}
        grp = [g for g in stab if gkey(g) in up_keys]
    else:
        bank_mi = up_mi = None
        grp = []
    key = random.PRNGKey(key_int)
    cls = case["cls"]
    if case.get("norm") == "batch":
        return _build_batchnorm(case, ins, outs, in_sig, out_sig, key)
    kernel = case.get("kernel", 3)
    common = dict(use_bias=case.get("bias", "auto"), equivariant=eq, conv_filters=bank_mi, kernel_size=None if eq else kernel, key=key)
    act = case.get("act", "gelu")
    if cls in ("ConvBlock", "ConvBlockPre"):
        pre = cls == "ConvBlockPre"
        if pre:
            # the library builds norm / nonlinearity from output_keys but applies them to the INPUT in preactivation
            # order, so (as inside ResNet) the block is only meaningful with input_keys == output_keys
            outs, out_sig = ins, in_sig
        if eq:
            # preactivation order normalises / activates the INPUT: the block maps in_sig types to out_sig types
            model = models.ConvBlock(D, ins, outs, activation_f=act, use_group_norm=case.get("norm", False), preactivation_order=pre, **common)
        else:
            s = geom.Signature((((0, 0), 3),))
            model = models.ConvBlock(D, s, s, activation_f=act, use_group_norm=case.get("norm", False), preactivation_order=pre, **common)
    elif cls == "ResNet":
        model = models.ResNet(D, ins, outs, depth=case.get("depth", 2), num_blocks=case.get("size", 1), num_conv=case.get("num_conv", 1), activation_f=act, use_group_norm=case.get("norm", False), preactivation_order=case.get("preact", False), **common)
    elif cls == "DilResNet":
        model = models.DilResNet(D, ins, outs, depth=case.get("depth", 2), num_blocks=case.get("size", 1), activation_f=act, use_group_norm=case.get("norm", False), **common)
    elif cls == "UNet":
        model = models.UNet(D, ins, outs, depth=case.get("depth", 2), num_downsamples=case.get("size", 1), num_conv=case.get("num_conv", 1), activation_f=act, use_group_norm=case.get("norm", False), upsample_filters=up_mi, **common)
    else:
        raise ValueError(cls)
    return model, in_sig, out_sig, grp


def in_signature_for(case):
    """the signature of the input a cell's model expects (conventional ConvBlock works on scalar channels)"""
    if case["cls"] in ("ConvBlock", "ConvBlockPre") and not case.get("equivariant", True):
        return [((0, 0), 3)]
    return SIGS2[case["sig"]][0]


def extent(case):
    D = case["d"]
    if "ext" in case:
        return tuple(case["ext"])
    return (4,) * D


def _build_batchnorm(case, ins, outs, in_sig, out_sig, key):
    """conventional model with batch norm: built with its state, switched to inference mode (running statistics, no
    cross-batch axis needed); returned as a callable x -> (out, state)"""
    import equinox as eqx
    import ginjax.geometric as geom
    import ginjax.models as models

    D = case["d"]
    act = case.get("act", "gelu")
    kernel = case.get("kernel", 3)
    if case["cls"] == "UNet":
        model, state = eqx.nn.make_with_state(models.UNet)(D, ins, outs, depth=case.get("depth", 2), num_downsamples=case.get("size", 1), num_conv=case.get("num_conv", 1), use_bias=case.get("bias", "auto"), activation_f=act, equivariant=False, kernel_size=kernel, use_batch_norm=True, key=key)
    else:
        s = geom.Signature((((0, 0), 3),))
        model, state = eqx.nn.make_with_state(models.ConvBlock)(D, s, s, use_bias=case.get("bias", "auto"), activation_f=act, equivariant=False, kernel_size=kernel, use_batch_norm=True, preactivation_order=case["cls"] == "ConvBlockPre", key=key)
    inf = eqx.nn.inference_mode(model)
    return (lambda x: inf(x, state)), in_sig, out_sig, []
