import time, itertools as it, numpy as np
t0=time.time()
import jax, jax.numpy as jnp
import ginjax.geometric as geom
print("import", time.time()-t0, jax.__version__, jax.devices())
# C02: 3-cycles on distinct extents
D=3
ops=geom.make_all_operators(D)
def ref_action(data, parity, g, D):
    sp=data.shape[:D]; k=data.ndim-D
    absg=np.abs(g)
    newsp=tuple(int(v) for v in absg@np.array(sp))
    c=(np.array(sp)-1)/2; c2=(np.array(newsp)-1)/2
    out=np.zeros(newsp+(D,)*k)
    det=round(np.linalg.det(g))
    for x in it.product(*[range(n) for n in newsp]):
        src=g.T@(np.array(x)-c2)+c
        src=tuple(int(round(v)) for v in src)
        t=data[src]
        for a in range(k):
            t=np.moveaxis(np.tensordot(g,t,axes=([1],[a])),0,a)
        out[x]=t*(det**parity)
    return out
bad=0
data=np.arange(2*3*4).reshape(2,3,4).astype(float)
for g in ops:
    try:
        r=np.array(geom.times_group_element(D,jnp.array(data),0,g))
        e=ref_action(data,0,g,D)
        ok = r.shape==e.shape and np.allclose(r,e)
    except Exception as ex:
        ok=False; print("exc",type(ex).__name__, str(ex)[:80])
    if not ok:
        bad+=1; print("BAD g=",g.tolist())
print("bad",bad,"of",len(ops))
