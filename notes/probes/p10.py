import time, itertools as it, numpy as np
import jax, jax.numpy as jnp, jax.random as random
import ginjax.geometric as geom, ginjax.ml as ml, ginjax.models as models
D=2
def ids(shape, base=0): return jnp.arange(base+1, base+1+int(np.prod(shape)), dtype=jnp.float32).reshape(shape)
flip_lon=np.array([[-1,0],[0,1]]); flip_eq=np.array([[1,0],[0,-1]]); g1=np.array([[-1]])
bad=0;n=0
for (nlon,nlat) in [(4,3),(3,3),(5,2)]:
 for steps in [1,2]:
  for sigtypes in [[(0,0)],[(1,0)],[(0,0),(1,0)],[(0,1),(1,0)],[(1,0),(0,0),(0,1)]]:
   for consts in [{},{(0,0):1},{(0,0):2,(0,1):1}]:
    dynsig={t:(i+1) for i,t in enumerate(sigtypes)}
    data={}
    for i,t in enumerate(sorted(set(sigtypes)|set(consts), key=lambda t:(t not in sigtypes, sigtypes.index(t) if t in sigtypes else 0))):
        k,p=t; c=dynsig.get(t,0)*steps+consts.get(t,0)
        data[t]=ids((c,nlon,nlat)+(D,)*k, 1000*i)
    x=geom.MultiImage(data,D,(True,False))
    outk=geom.Signature(tuple((t,c*steps) for t,c in dynsig.items()))
    cl=models.Climate1D(lambda z,a=None:(z,a), outk, steps, steps, (nlon,nlat), consts, (True,False))
    n+=1
    try:
        z=cl.to1d(x)
        # lossless: multiset of values equal
        allin=np.sort(np.concatenate([np.array(v).ravel() for v in x.values()]))
        allout=np.sort(np.concatenate([np.array(v).ravel() for v in z.values()]))
        ok1=np.array_equal(allin,allout)
        ok2=True
        if not consts:
            back=cl.from1d(z)
            ok2=set(back.keys())==set(x.keys()) and all(back[t].shape==x[t].shape and bool(jnp.all(back[t]==x[t])) for t in x.keys())
        # lon reflection
        zl=cl.to1d(x.times_group_element(flip_lon)); zr=z.times_group_element(g1)
        ok3=set(zl.keys())==set(zr.keys()) and all(bool(jnp.all(zl[t]==zr[t])) for t in zl.keys())
        sig1=models.Climate1D.get_1d_signature({t:(dynsig.get(t,0)*steps+consts.get(t,0)) for t in data}, nlat)
        ok4=dict(sig1)==z.get_signature_dict()
        if not (ok1 and ok2 and ok3 and ok4): bad+=1; print("C10 climate BAD",(nlon,nlat),steps,sigtypes,consts,ok1,ok2,ok3,ok4)
    except Exception as e:
        bad+=1; print("C10 EXC",(nlon,nlat),steps,sigtypes,consts,repr(e)[:150])
print("C10 climate n",n,"bad",bad)
