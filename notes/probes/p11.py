import time, itertools as it, numpy as np
import jax, jax.numpy as jnp, jax.random as random
import equinox as eqx
import ginjax.geometric as geom, ginjax.ml as ml, ginjax.models as models
D=2; N=4
ops=geom.make_all_operators(D)
cf=geom.get_invariant_filters([3],[0,1,2],[0,1],D,ops)
uf=geom.get_invariant_filters([2],[0,1,2],[0,1],D,ops)
key=random.PRNGKey(0)
alltypes=[(0,0),(0,1),(1,0),(1,1),(2,0)]
def mk(sig,tor=True):
    return geom.MultiImage({(k,p):random.normal(random.PRNGKey(10*k+p),(c,N,N)+(D,)*k) for (k,p),c in sig},D,tor)
def reachable(ins,outs,bank):
    return [t for t in outs if any(((s[0]+t[0]),(s[1]+t[1])%2) in bank for s in ins)]
res={}
t0=time.time()
for equiv in [True,False]:
  for ins in [((0,0),),((1,0),(0,0)),((0,1),(1,1)),((2,0),(0,0))]:
    for outs in [((0,0),),((0,1),),((1,0),(0,0)),((0,1),(0,0),(1,1)),((2,0),(1,0))]:
      ink=geom.Signature(tuple((t,i+1) for i,t in enumerate(ins)))
      outk=geom.Signature(tuple((t,i+2) for i,t in enumerate(outs)))
      x=mk(ink,(True,False))
      for name,ctor in [
        ("ResNet", lambda k: models.ResNet(D,ink,outk,depth=2,num_blocks=1,equivariant=equiv,conv_filters=cf,kernel_size=3,key=k)),
        ("DilResNet", lambda k: models.DilResNet(D,ink,outk,depth=2,num_blocks=1,equivariant=equiv,conv_filters=cf,kernel_size=3,key=k)),
        ("UNet", lambda k: models.UNet(D,ink,outk,depth=2,num_downsamples=1,num_conv=1,equivariant=equiv,conv_filters=cf,upsample_filters=uf,kernel_size=3,key=k)),
      ]:
        try:
            y,_=ctor(key)(x)
            got=y.get_signature()
            if equiv:
                # reachable through mid keys: mid=union(ins,outs); assume full reach except (0,1)-only quirks
                exp=outk
            else: exp=outk
            status="OK" if got==exp else ("SET-OK-ORDER-DIFF" if dict(got)==dict(exp) else f"DIFF got={got}")
            if y.get_spatial_dims()!=(N,N) or y.D!=D or y.is_torus!=(True,False): status+=" META-DIFF"
        except Exception as e:
            status="EXC "+repr(e)[:140]
        res.setdefault(status[:60],[]).append((equiv,name,ins,outs))
for s,v in res.items():
    print(len(v),s); 
    for e in v[:4]: print("    ",e)
print("t",time.time()-t0)
