import time, itertools as it, numpy as np, os, tempfile
import jax, jax.numpy as jnp, jax.random as random
import equinox as eqx, optax
import ginjax.geometric as geom, ginjax.ml as ml, ginjax.models as models
D=2; N=4
# wrap pad > N
x=jnp.arange(16.).reshape(1,1,4,4); f=jnp.ones((1,1,3,3))
y=geom.convolve(D,x,f,True,1,"TORUS",None,8)
print("torus dil 8 on N=4:", y.shape, float(y.sum()), "expected", 9*float(x.sum()))
ops=geom.make_all_operators(D)
cf=geom.get_invariant_filters([3],[0,1],[0,1],D,ops)
key=random.PRNGKey(0)
sig=geom.Signature((((0,0),1),((1,0),1)))
m=models.ResNet(D,sig,sig,depth=2,num_blocks=1,equivariant=True,conv_filters=cf,use_group_norm=False,key=key)
B=4
X=geom.MultiImage({(0,0):random.normal(key,(B,1,N,N)),(1,0):random.normal(key,(B,1,N,N,2))},D)
Y=geom.MultiImage({(0,0):random.normal(random.PRNGKey(1),(B,1,N,N)),(1,0):random.normal(random.PRNGKey(2),(B,1,N,N,2))},D)
def map_and_loss(model,x,y,aux):
    pred,aux=jax.vmap(model,in_axes=(0,None),out_axes=(0,None))(x,aux)
    return ml.smse_loss(pred,y),aux
for oname,opt in [("sgd",optax.sgd(1e-2)),("adam",optax.adam(1e-2)),("adamw",optax.adamw(1e-2,weight_decay=0.1))]:
    t=time.time()
    class H(ml.EpochStop): pass
    try:
        out=ml.train(X,Y,map_and_loss,m,key,ml.EpochStop(2),2,opt)
        m2=out[0]
        f0=m.encoder[0].conv.invariant_filters; f1=m2.encoder[0].conv.invariant_filters
        ratios={k:np.unique(np.round(np.array(f1[k])[np.array(f0[k])!=0]/np.array(f0[k])[np.array(f0[k])!=0],6)) for k in f0.keys()}
        print(oname,"train 2 epochs x2 batches t=%.1f"%(time.time()-t),"loss",out[2],"filter ratios",ratios)
    except Exception as e:
        import traceback; traceback.print_exc()
# train with TrainLoss and horizon
class Horizon(Exception): pass
class TL(ml.TrainLoss):
    n=0
    def stop(self,*a):
        TL.n+=1
        if TL.n>6: raise Horizon()
        return super().stop(*a)
try:
    ml.train(X,Y,map_and_loss,m,key,TL(patience=0),2,optax.sgd(0.0))
    print("TrainLoss terminated after",TL.n)
except Horizon: print("TrainLoss: horizon exceeded (never stops)")
# save/load
with tempfile.TemporaryDirectory() as d:
    fn=os.path.join(d,"m.eqx"); ml.save(fn,m2)
    m3=ml.load(fn, models.ResNet(D,sig,sig,depth=2,num_blocks=1,equivariant=True,conv_filters=cf,use_group_norm=False,key=random.PRNGKey(9)))
    xx=X.get_one(0,keepdims=False)
    a=m2(xx)[0]; b=m3(xx)[0]
    print("save/load bit equal:", all(bool(jnp.all(a[k]==b[k])) for k in a.keys()))
