import time, itertools as it, numpy as np
import jax, jax.numpy as jnp, jax.random as random
import ginjax.geometric as geom, ginjax.ml as ml, ginjax.models as models
D=3
ops=geom.make_all_operators(D)
for M,ks in [(3,[0,1]),(3,[2]),(2,[0,1,2]),(5,[0,1]),(3,[3])]:
    t=time.time()
    d,_=geom.get_invariant_filters_dict([M],ks,[0,1],D,ops)
    print("D3 M",M,"ks",ks,{k:len(v) for k,v in d.items()},"t=%.1f"%(time.time()-t))
