import time, itertools as it, numpy as np
import jax, jax.numpy as jnp
import ginjax.geometric as geom
def act(img,g):
    return img.times_group_element(g, precision=jax.lax.Precision.HIGHEST)
rng=np.random.default_rng(0)
bad=0;n=0
for D in [2,3]:
    ops=geom.make_all_operators(D)
    N=3
    def leaf(k,p): return geom.GeometricImage(jnp.array(rng.integers(-2,3,size=(N,)*D+(D,)*k).astype(np.float32)),p,D)
    unary=[]
    def unary_ops(k):
        out=[]
        if k>=2:
            for i,j in it.combinations(range(k),2): out.append((f"contract{i}{j}",lambda a,i=i,j=j:a.contract(i,j)))
            for perm in it.permutations(range(k)):
                if perm!=tuple(range(k)): out.append((f"T{perm}",lambda a,perm=perm:a.transpose(perm)))
        if k>=D-1:
            for idx in it.permutations(range(k),D-1): out.append((f"lc{idx}",lambda a,idx=idx:a.levi_civita_contract(idx if D>2 else idx[0])))
        out.append(("norm",lambda a:a.norm()))
        out.append(("x3",lambda a:a*3.0))
        return out
    kmax=3 if D==2 else 2
    for k in range(kmax+1):
      for p in [0,1]:
        a=leaf(k,p)
        for name,f in unary_ops(k):
            r=f(a)
            for g in ops:
                n+=1
                l=f(act(a,g)); rr=act(r,g)
                if not (l.k==rr.k and l.parity==rr.parity and np.allclose(l.data,rr.data,atol=1e-4)):
                    bad+=1; print("BAD unary",D,k,p,name); break
        for k2 in range(kmax+1-k):
          for p2 in [0,1]:
            b=leaf(k2,p2)
            r=a*b
            for g in ops:
                n+=1
                l=act(a,g)*act(b,g); rr=act(r,g)
                if not (l.parity==rr.parity==(p+p2)%2 and np.allclose(l.data,rr.data,atol=1e-4)): bad+=1; print("BAD mul",D,k,p,k2,p2); break
            # composition: (a*b) + (b*a).transpose
            if k+k2>=1:
                perm=tuple(range(k2,k+k2))+tuple(range(k2))
                try:
                    s=(a*b)-(b*a).transpose(perm)
                    if not np.allclose(s.data,0): bad+=1; print("BAD commut",D,k,p,k2,p2)
                except AssertionError as e: bad+=1; print("ASSERT commut",D,k,p,k2,p2)
print("n",n,"bad",bad)
