import os, time, sys
t0=time.time()
import jax, jax.numpy as jnp, numpy as np
if len(sys.argv)>1:
    jax.config.update("jax_compilation_cache_dir", sys.argv[1])
    jax.config.update("jax_persistent_cache_min_compile_time_secs", 0)
    jax.config.update("jax_persistent_cache_min_entry_size_bytes", -1)
import ginjax.geometric as geom
t1=time.time()
ops=geom.make_all_operators(2)
cf=geom.get_invariant_filters([3],[0,1,2],[0,1],2,ops)
t2=time.time()
n=0
for sp in [(4,4),(3,5),(5,5)]:
  for k in [0,1,2]:
    for kf in [0,1]:
      for pad in ["TORUS","SAME","VALID"]:
        x=jnp.ones((2,2)+sp+(2,)*k); f=jnp.ones((3,2,3,3)+(2,)*kf)
        geom.convolve(2,x,f,True,1,pad,None,1).block_until_ready(); n+=1
print("import %.1f filters %.1f conv(%d) %.1f"%(t1-t0,t2-t1,n,time.time()-t2))
