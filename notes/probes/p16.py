import time, itertools as it, numpy as np
import jax, jax.numpy as jnp, jax.random as random
import equinox as eqx
import ginjax.geometric as geom, ginjax.ml as ml, ginjax.models as models
src=open('p5.py').read(); start=src.index("def get_filters"); end=src.index("def eqerr"); exec(src[start:end])
key=random.PRNGKey(0)
def shift(mi,s):
    D=mi.D; n=mi.get_n_leading()
    return geom.MultiImage({k:jnp.roll(v,s,axis=tuple(range(n,n+D))) for k,v in mi.items()},D,mi.is_torus)
for D,N in [(2,8),(3,4)]:
    t=time.time()
    ops=geom.make_all_operators(D)
    cf=geom.get_invariant_filters([3],[0,1,2],[0,1],D,ops)
    uf=geom.get_invariant_filters([2],[0,1,2],[0,1],D,ops)
    print("D",D,"filters t=%.1f"%(time.time()-t), cf.get_signature())
    ink=geom.Signature((((0,0),1),((1,0),1))); outk=geom.Signature((((1,0),1),((0,0),2)))
    x=geom.MultiImage({(0,0):random.normal(key,(1,)+(N,)*D),(1,0):random.normal(random.PRNGKey(5),(1,)+(N,)*D+(D,))},D,True)
    for name,ctor,step in [
     ("ResNet", lambda k: models.ResNet(D,ink,outk,depth=2,num_blocks=1,equivariant=True,conv_filters=cf,key=k),1),
     ("DilResNet", lambda k: models.DilResNet(D,ink,outk,depth=2,num_blocks=1,equivariant=True,conv_filters=cf,use_group_norm=True,key=k),1),
     ("UNet", lambda k: models.UNet(D,ink,outk,depth=2,num_downsamples=2 if D==2 else 1,num_conv=1,equivariant=True,conv_filters=cf,upsample_filters=uf,use_group_norm=True,key=k),4 if D==2 else 2),
    ]:
        t=time.time()
        m=perturb(ctor(key),random.PRNGKey(7),0.2)
        y,_=m(x); sc=max(float(jnp.max(jnp.abs(v))) for v in y.values())
        eg=0
        for g in ops:
            l,_=m(x.times_group_element(g)); r=y.times_group_element(g)
            eg=max(eg,max(float(jnp.max(jnp.abs(l[k]-r[k]))) for k in r.keys()))
        et=0; ebad=0
        for s in it.product(range(0,N,step),repeat=D):
            l,_=m(shift(x,s)); r=shift(y,s)
            et=max(et,max(float(jnp.max(jnp.abs(l[k]-r[k]))) for k in r.keys()))
        # negative control for unet: shift by 1
        l,_=m(shift(x,(1,)*D)); r=shift(y,(1,)*D)
        ec=max(float(jnp.max(jnp.abs(l[k]-r[k]))) for k in r.keys())
        print(D,name,"group err %.1e transl err %.1e (shift-by-1 err %.1e) scale %.1e t=%.1f"%(eg,et,ec,sc,time.time()-t))
