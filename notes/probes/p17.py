import time, itertools as it, numpy as np, sys
import jax, jax.numpy as jnp
import ginjax.geometric as geom
def Bd(D):
    out=[]
    for perm in it.permutations(range(D)):
        for signs in it.product([1,-1],repeat=D):
            m=np.zeros((D,D),dtype=int)
            for i,(j,s) in enumerate(zip(perm,signs)): m[i,j]=s
            out.append(m)
    return out
def closure(gens,D):
    key=lambda m:tuple(m.ravel())
    S={key(np.eye(D,dtype=int)):np.eye(D,dtype=int)}
    frontier=list(S.values())
    while frontier:
        new=[]
        for a in frontier:
            for g in gens:
                b=a@g
                if key(b) not in S: S[key(b)]=b; new.append(b)
        frontier=new
    return list(S.values())
def fixpix(g,M,D):
    c=(M-1)
    n=0
    for x in it.product(range(M),repeat=D):
        v=2*np.array(x)-c
        if np.array_equal(g@v,v): n+=1
    return n
def burnside(G,M,k,p,D):
    tot=0
    for g in G:
        det=round(np.linalg.det(g))
        tot+=fixpix(g,M,D)*(int(np.trace(g))**k)*(det**p)
    assert tot%len(G)==0
    return tot//len(G)
res=[]
for D in [2,3]:
    B=Bd(D)
    groups={"B":B,"SO":[g for g in B if round(np.linalg.det(g))==1],"C2^d":[g for g in B if np.array_equal(np.abs(g),np.eye(D,dtype=int))],"triv":[np.eye(D,dtype=int)]}
    if D==2:
        groups["flipx"]=closure([np.array([[-1,0],[0,1]])],2); groups["rot180"]=closure([np.array([[-1,0],[0,-1]])],2); groups["diag"]=closure([np.array([[0,1],[1,0]])],2)
        groups["C4"]=closure([np.array([[0,-1],[1,0]])],2)
    else:
        groups["C3diag"]=closure([np.array([[0,1,0],[0,0,1],[1,0,0]])],3)
        groups["S3"]=closure([np.array([[0,1,0],[0,0,1],[1,0,0]]),np.array([[0,1,0],[1,0,0],[0,0,1]])],3)
    for gname,G in groups.items():
      for M in ([1,2,3,4,5] if D==2 else [1,2,3]):
        for k in ([0,1,2,3] if D==2 else [0,1,2]):
          for p in [0,1]:
            if gname=="triv" and M**D*D**k>100: continue
            t=time.time()
            exp=burnside(G,M,k,p,D)
            try:
                fs=geom.get_unique_invariant_filters(M,k,p,D,G)
                got=len(fs)
                # invariance exact
                inv=all(bool(jnp.all(f.times_group_element(g,precision=jax.lax.Precision.HIGHEST).data==f.data)) for f in fs for g in G)
                if fs:
                    A=np.stack([np.array(f.data).ravel() for f in fs]); rk=np.linalg.matrix_rank(A)
                else: rk=0
            except Exception as e:
                got="EXC "+repr(e)[:100]; inv=None; rk=None
            ok=(got==exp and inv and rk==got)
            res.append(ok)
            if not ok: print("C03 BAD",D,gname,len(G),M,k,p,"expected",exp,"got",got,"inv",inv,"rank",rk,"t=%.1f"%(time.time()-t))
print("C03 total",len(res),"bad",res.count(False))
