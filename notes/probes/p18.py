import time, itertools as it, numpy as np
import jax, jax.numpy as jnp, jax.random as random
import equinox as eqx, optax
import ginjax.geometric as geom, ginjax.ml as ml, ginjax.models as models
D=2; N=4
ops=geom.make_all_operators(D)
cf=geom.get_invariant_filters([3],[0,1,2],[0,1],D,ops)
uf=geom.get_invariant_filters([2],[0,1,2],[0,1],D,ops)
key=random.PRNGKey(0)
sig=geom.Signature((((0,0),1),((1,0),1)))
B=4
X=geom.MultiImage({(0,0):random.normal(key,(B,1,N,N)),(1,0):random.normal(key,(B,1,N,N,2))},D)
Y=geom.MultiImage({(0,0):random.normal(random.PRNGKey(1),(B,1,N,N)),(1,0):random.normal(random.PRNGKey(2),(B,1,N,N,2))},D)
def map_and_loss(model,x,y,aux):
    pred,aux=jax.vmap(model,in_axes=(0,None),out_axes=(0,None))(x,aux)
    return ml.smse_loss(pred,y),aux
def eqerr(m,x):
    y=m(x)[0]; e=0
    for g in ops:
        l=m(x.times_group_element(g))[0]; r=y.times_group_element(g)
        e=max(e,max(float(jnp.max(jnp.abs(l[k]-r[k]))) for k in r.keys()))
    return e, max(float(jnp.max(jnp.abs(v))) for v in y.values())
x1=X.get_one(0,keepdims=False)
for mname,ctor in [("ResNet+gn",lambda k: models.ResNet(D,sig,sig,depth=2,num_blocks=1,equivariant=True,conv_filters=cf,use_group_norm=True,key=k)),
                   ("UNet+gn",lambda k: models.UNet(D,sig,sig,depth=2,num_downsamples=1,num_conv=1,equivariant=True,conv_filters=cf,upsample_filters=uf,use_group_norm=True,key=k))]:
  for oname,opt in [("sgd",optax.sgd(5e-2)),("adam",optax.adam(5e-2)),("adamw",optax.adamw(5e-2,weight_decay=0.1))]:
    t=time.time()
    try:
        m=ctor(key)
        out=ml.train(X,Y,map_and_loss,m,key,ml.EpochStop(2),2,opt)
        m2=out[0]
        e,s=eqerr(m2,x1)
        moved=max(float(jnp.max(jnp.abs(a-b))) for a,b in zip(jax.tree_util.tree_leaves(eqx.filter(m,eqx.is_inexact_array)),jax.tree_util.tree_leaves(eqx.filter(m2,eqx.is_inexact_array))))
        # group norm bias moved?
        print(mname,oname,"t=%.1f err=%.1e scale=%.1e moved=%.2e"%(time.time()-t,e,s,moved))
    except Exception as ex:
        print(mname,oname,"EXC",repr(ex)[:200])
# C14 vmap vs single
m=models.ResNet(D,sig,sig,depth=2,num_blocks=1,equivariant=True,conv_filters=cf,use_group_norm=True,key=key)
yb=jax.vmap(lambda z:m(z)[0])(X)
errs=[]
for i in range(B):
    yi=m(X.get_one(i,keepdims=False))[0]
    errs.append(max(float(jnp.max(jnp.abs(yb[k][i]-yi[k]))) for k in yi.keys()))
print("C14 vmap vs single max err",max(errs))
X2=geom.MultiImage({k:v.at[1:].set(1e3*v[1:]) for k,v in X.items()},D)
yb2=jax.vmap(lambda z:m(z)[0])(X2)
print("C14 entry0 unchanged when others replaced:", all(bool(jnp.all(yb[k][0]==yb2[k][0])) for k in yb.keys()))
