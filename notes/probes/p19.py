import numpy as np, jax, jax.numpy as jnp, jax.random as random
import ginjax.geometric as geom, ginjax.ml as ml, ginjax.models as models
D=2;N=4
ops=geom.make_all_operators(D)
cf=geom.get_invariant_filters([3],[0,1],[0,1],D,ops)
trace=[]
def monitor(cls):
    orig=cls.__call__
    def wrapped(self,*a,**kw):
        out=orig(self,*a,**kw)
        trace.append((cls.__name__, out if isinstance(out,geom.MultiImage) else out[0]))
        return out
    cls.__call__=wrapped
for c in [ml.ConvContract, ml.GroupNorm, ml.VectorNeuronNonlinear, ml.MaxNormPool, models.ConvBlock]:
    monitor(c)
sig=geom.Signature((((0,0),1),((1,0),1)))
m=models.ResNet(D,sig,sig,depth=2,num_blocks=1,equivariant=True,conv_filters=cf,key=random.PRNGKey(0))
x=geom.MultiImage({(0,0):random.normal(random.PRNGKey(1),(1,N,N)),(1,0):random.normal(random.PRNGKey(2),(1,N,N,2))},D)
m(x); t1=list(trace); trace.clear()
g=ops[3]
m(x.times_group_element(g)); t2=list(trace)
print(len(t1),[n for n,_ in t1])
for (n1,a),(n2,b) in zip(t1,t2):
    ag=a.times_group_element(g)
    print(n1, max(float(jnp.max(jnp.abs(ag[k]-b[k]))) for k in b.keys()))
