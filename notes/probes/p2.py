import time, itertools as it, numpy as np
t0=time.time()
import jax, jax.numpy as jnp, jax.random as random
import equinox as eqx
import ginjax.geometric as geom, ginjax.ml as ml, ginjax.models as models
print("import", time.time()-t0)
D=2
ops=geom.make_all_operators(D)
rot=np.array([[0,-1],[1,0]])
# is_torus transport
im=geom.GeometricImage(jnp.arange(6.).reshape(2,3),0,2,(True,False))
r=im.times_group_element(rot)
print("GI rot spatial",r.spatial_dims,"is_torus",r.is_torus)
# MultiImage nonsquare
mi=geom.MultiImage({(0,0):jnp.arange(6.).reshape(1,2,3)},2,(True,False))
try:
    r2=mi.times_group_element(rot)
    print("MI rot shape",r2[(0,0)].shape, "is_torus", r2.is_torus, "equal to GI?", np.allclose(np.array(r2[(0,0)][0]).reshape(-1), np.array(r.data).reshape(-1)), r2[(0,0)][0], r.data)
except Exception as e: print("MI exc",e)
# C12
a=geom.MultiImage({(0,0):jnp.ones((1,2,2)),(0,1):2*jnp.ones((1,2,2))},2)
b=geom.MultiImage({(0,1):20*jnp.ones((1,2,2)),(0,0):10*jnp.ones((1,2,2))},2)
s=a+b
print("C12 a+b (0,0)",s[(0,0)].ravel()[:1],"(0,1)",s[(0,1)].ravel()[:1])
bj=jax.jit(lambda m:m)(b)
print("jit order", list(bj.keys()))
# C18
x=geom.MultiImage({(0,0):jnp.ones((1,1,2,2)),(0,1):2*jnp.ones((1,1,2,2))},2)
y=geom.MultiImage({(0,1):2*jnp.ones((1,1,2,2)),(0,0):jnp.ones((1,1,2,2))},2)
print("C18 smse equal-but-reordered", ml.smse_loss(x,y), ml.timestep_smse_loss(x,y,1), ml.normalized_smse_loss(x,y))
# C19
tl=ml.TrainLoss(patience=0)
print("C19 float", [tl.stop(None,i,float(v),None,0.) for i,v in enumerate([3,2,2,2])])
tl=ml.TrainLoss(patience=0)
print("C19 jax", [tl.stop(None,i,jnp.array(float(v)),None,0.) for i,v in enumerate([3,2,2,2])])
tl=ml.TrainLoss(patience=0)
print("C19 np32", [tl.stop(None,i,np.float32(v),None,0.) for i,v in enumerate([3,2,2,2])])
tl=ml.TrainLoss(patience=0)
print("C19 np64", [tl.stop(None,i,np.float64(v),None,0.) for i,v in enumerate([3,2,2,2])])
# C11
filt=geom.get_invariant_filters([3],[0,1,2],[0,1],D,ops)
print("filters", filt.get_signature())
key=random.PRNGKey(0)
ink=geom.Signature((((0,0),2),((1,0),3)))
outk=geom.Signature((((0,0),3),((1,0),2)))
xin=geom.MultiImage({(0,0):random.normal(key,(2,4,4)),(1,0):random.normal(key,(3,4,4,2))},D)
for ub in ["auto","mean","scalar",True,False]:
    c=ml.ConvContract(ink,outk,filt,use_bias=ub,key=key)
    print("C11 bias",ub,"->",c(xin).get_signature())
# C08 groupnorm pseudoscalar
gn=ml.GroupNorm(geom.Signature((((0,1),2),)),D,1)
gn=eqx.tree_at(lambda m:m.vanilla_norm[(0,1)].bias, gn, jnp.array([0.5,-0.3]))
xp=geom.MultiImage({(0,1):random.normal(key,(2,4,4))},D)
refl=np.array([[1,0],[0,-1]])
l=gn(xp.times_group_element(refl)); rr=gn(xp).times_group_element(refl)
print("C08 GN pseudoscalar equivariant w/ bias:", l==rr, float(jnp.max(jnp.abs(l[(0,1)]-rr[(0,1)]))))
