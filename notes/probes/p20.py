import time, itertools as it, numpy as np
import jax, jax.numpy as jnp
import ginjax.geometric as geom
def Bd(D):
    out=[]
    for perm in it.permutations(range(D)):
        for signs in it.product([1,-1],repeat=D):
            m=np.zeros((D,D),dtype=int)
            for i,(j,s) in enumerate(zip(perm,signs)): m[i,j]=s
            out.append(m)
    return out
def ref_action(data, parity, g, D, lead=0):
    # data: (lead..., spatial, tensor)
    sp=data.shape[lead:lead+D]; k=data.ndim-D-lead
    absg=np.abs(g)
    newsp=tuple(int(v) for v in absg@np.array(sp))
    c2=np.array(sp)-1; c2n=np.array(newsp)-1   # doubled centres
    grids=np.stack(np.meshgrid(*[np.arange(n) for n in newsp],indexing="ij"),-1).reshape(-1,D)
    src2=(2*grids-c2n)@g + c2   # row-vector: g^T (x-c')
    assert np.all(src2%2==0)
    src=src2//2
    idx=tuple(src[:,i] for i in range(D))
    gathered=data[(slice(None),)*lead+idx]  # (lead..., npix, tensor)
    gathered=gathered.reshape(data.shape[:lead]+newsp+(D,)*k)
    for a in range(k):
        ax=lead+D+a
        gathered=np.moveaxis(np.tensordot(g,gathered,axes=([1],[ax])),0,ax)
    det=int(round(np.linalg.det(g)))
    return gathered*(det**parity)
def perm_axes(t,g):
    absg=np.abs(g); D=len(t)
    return tuple(t[int(np.argmax(absg[i]))] for i in range(D))
n=0;bad=0;t0=time.time()
for D,shapes,ks,Ms in [(2,[(4,4),(3,5)],[0,1,2],[1,2,3]),(3,[(3,3,3),(2,3,4)],[0,1],[2,3])]:
  G=Bd(D)
  for sp in shapes:
   for k in ks:
    for kf in ks:
     for M in Ms:
      for tor in ([(True,)*D,(False,)*D,(True,)+(False,)*(D-1)]):
       for pad in [None,"SAME","VALID",1]:
        for rd in [1,(1,2)+(1,)*(D-2)]:
         for ld in [None,(2,)*D]:
          if M%2==0 and pad in (None,"SAME","TORUS"): continue
          if D==3 and (k+kf>1): continue
          nimg=int(np.prod(sp))*D**k; nflt=M**D*D**kf
          A=np.eye(nimg,dtype=np.float32).reshape((nimg,1)+sp+(D,)*k)
          C=np.eye(nflt,dtype=np.float32).reshape((nflt,1)+(M,)*D+(D,)*kf)
          base=np.array(geom.convolve(D,jnp.array(A),jnp.array(C),tor,1,pad,ld,rd))
          for g in G:
              gA=ref_action(A,0,g,D,lead=2); gC=ref_action(C,0,g,D,lead=2)
              tg=perm_axes(tor,g); rdg=perm_axes(rd,g) if isinstance(rd,tuple) else rd
              lhs=np.array(geom.convolve(D,jnp.array(gA),jnp.array(gC),tg,1,pad,ld,rdg))
              rhs=ref_action(base,0,g,D,lead=2)
              n+=1
              if lhs.shape!=rhs.shape or not np.array_equal(lhs,rhs):
                  bad+=1
                  if bad<10: print("C01 BAD",D,sp,k,kf,M,tor,pad,rd,ld,g.tolist())
print("C01 evaluations",n,"bad",bad,"t=%.0f"%(time.time()-t0))
