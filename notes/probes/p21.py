import numpy as np, jax, jax.numpy as jnp, itertools as it
import ginjax.geometric as geom
D=2; sp=(2,3); B=3; steps=2
def ids(shape, base=0): return jnp.arange(base+1, base+1+int(np.prod(shape)), dtype=jnp.float32).reshape(shape)
for order in [[(0,0),(1,0)],[(1,0),(0,0)],[(0,1),(0,0),(1,0)]]:
    data={t:ids((B,(i+1)*steps)+sp+(D,)*t[0],1000*i) for i,t in enumerate(order)}
    m=geom.MultiImage(data,D)
    ncomp=sum((i+1)*D**t[0] for i,t in enumerate(order))
    bad=[]
    for comp in list(range(ncomp))+[slice(0,2),slice(1,None)]:
        try:
            bo=m.batch_get_component(comp,steps)
            for b in range(B):
                so=m.get_one(b,keepdims=False).get_component(comp,steps)
                if not (bo[(0,0)][b].shape==so[(0,0)].shape and bool(jnp.all(bo[(0,0)][b]==so[(0,0)]))): bad.append((comp,b))
        except Exception as e: bad.append((comp,repr(e)[:80]))
    print(order,"ncomp",ncomp,"bad",bad[:6],len(bad))
