import numpy as np, jax, jax.numpy as jnp, jax.random as random
import ginjax.geometric as geom, ginjax.ml as ml, ginjax.models as models
D=2;N=4;B=3
key=random.PRNGKey(0)
for order in [[(0,0),(1,0)],[(1,0),(0,0)]]:
    X=geom.MultiImage({t:random.normal(random.PRNGKey(7+t[0]),(B,2)+(N,N)+(D,)*t[0]) for t in order},D)
    ink=X.get_one(0,keepdims=False).get_signature()
    outk=geom.Signature((((0,0),1),((1,0),1)))
    m=models.ResNet(D,ink,outk,depth=2,num_blocks=1,equivariant=False,kernel_size=3,key=key)
    yb=jax.vmap(lambda z:m(z)[0])(X)
    e=0
    for i in range(B):
        yi=m(X.get_one(i,keepdims=False))[0]
        e=max(e,max(float(jnp.max(jnp.abs(yb[k][i]-yi[k]))) for k in yi.keys()))
    print("conventional ResNet storage order",order,"vmap vs single max err",e)
