# C18 loss definitions vs numpy float64; C13 assorted round trips
import itertools as it, numpy as np, jax, jax.numpy as jnp, jax.random as random
import ginjax.geometric as geom, ginjax.ml as ml
rng=np.random.default_rng(0)
bad=0;n=0
for D,sp in [(2,(3,4)),(3,(2,3,2))]:
  for B in [1,3]:
    for steps in [1,2,3]:
      types=[(0,0),(1,0),(2,1)]
      x={t:rng.normal(size=(B,(i+1)*steps)+sp+(D,)*t[0]).astype(np.float32) for i,t in enumerate(types)}
      y={t:rng.normal(size=(B,(i+1)*steps)+sp+(D,)*t[0]).astype(np.float32) for i,t in enumerate(types)}
      X=geom.MultiImage({t:jnp.array(v) for t,v in x.items()},D); Y=geom.MultiImage({t:jnp.array(v) for t,v in y.items()},D)
      npx=np.prod(sp)
      per_b=sum(((x[t].astype(np.float64)-y[t])**2).reshape(B,-1).sum(1) for t in types)/npx
      n+=1
      if not np.allclose(ml.smse_loss(X,Y),per_b.mean(),rtol=1e-5): bad+=1; print("smse mean BAD")
      if not np.allclose(ml.smse_loss(X,Y,None),per_b,rtol=1e-5): bad+=1; print("smse none BAD")
      ts=np.zeros((B,steps))
      for i,t in enumerate(types):
          d=((x[t].astype(np.float64)-y[t])**2).reshape((B,i+1,steps,-1)).sum((1,3))/npx
          ts+=d
      if not np.allclose(ml.timestep_smse_loss(X,Y,steps,None),ts,rtol=1e-5): bad+=1; print("ts none BAD")
      if not np.allclose(ml.timestep_smse_loss(X,Y,steps,"mean"),ts.mean(0),rtol=1e-5): bad+=1; print("ts mean BAD")
      if not np.allclose(ml.timestep_smse_loss(X,Y,steps,"max"),ts[np.argmax(ts.sum(1))],rtol=1e-5): bad+=1; print("ts max BAD")
      if not np.allclose(np.array(ml.timestep_smse_loss(X,Y,steps,None)).sum(1),per_b,rtol=1e-5): bad+=1; print("sum steps BAD")
      nl=0
      for t in types:
          k=t[0]
          yn=(y[t].astype(np.float64)**2).reshape(y[t].shape[:2+D]+(-1,)).sum(-1)
          err=((x[t].astype(np.float64)-y[t])**2).reshape(y[t].shape[:2+D]+(-1,)).sum(-1)
          nl=nl+(err/(yn+1e-5)).reshape(B,-1).sum(1)/npx
      if not np.allclose(ml.normalized_smse_loss(X,Y),nl.mean(),rtol=1e-4): bad+=1; print("norm BAD",float(ml.normalized_smse_loss(X,Y)),nl.mean())
      if float(ml.smse_loss(X,X))!=0.0 or float(ml.normalized_smse_loss(X,X))!=0.0: bad+=1; print("zero BAD")
print("C18 n",n,"bad",bad)
# C13 assorted
def ids(shape, base=0): return jnp.arange(base+1, base+1+int(np.prod(shape)), dtype=jnp.float32).reshape(shape)
def same(a,b): return set(a.keys())==set(b.keys()) and a.D==b.D and a.is_torus==b.is_torus and all(a[k].shape==b[k].shape and bool(jnp.all(a[k]==b[k])) for k in a.keys())
bad=0;n=0
for D in [1,2,3]:
  sp=(2,3,4)[:D]; tor=(True,False,True)[:D]
  types=[(0,0),(0,1)] if D==1 else [(1,1),(0,0),(2,0)]
  for lead in [(),(3,),(2,3),(2,3,5)]:
    m=geom.MultiImage({t:ids(lead[:-1]+((lead[-1]+i,) if lead else ())+sp+(D,)*t[0],1000*i) for i,t in enumerate(types)},D,tor)
    n+=1
    # vector
    if not same(geom.MultiImage.from_vector(m.to_vector(),m),m): bad+=1; print("vector BAD",D,lead)
    # jit / pytree
    if not same(jax.jit(lambda z:z)(m),m): bad+=1; print("jit BAD",D,lead)
    l,td=jax.tree_util.tree_flatten(m)
    if not same(jax.tree_util.tree_unflatten(td,l),m): bad+=1; print("flatten BAD")
    if lead:
        if not same(jax.vmap(lambda z:z)(m),m): bad+=1; print("vmap BAD",D,lead)
        # concat / inverse along each leading axis with b of a different size & partial types
        for ax in range(len(lead)):
            bsh=list(lead); 
            bdata={}
            for i,t in enumerate(types[:2]):
                sh=list(m[t].shape); sh[ax]=2
                bdata[t]=ids(tuple(sh),5000+1000*i)
            b=geom.MultiImage(bdata,D,tor)
            c=m.concat(b,axis=ax)
            sig={t:2 for t in types[:2]}
            a2,b2=c.concat_inverse(sig,axis=ax)
            if not (same(a2,m) and same(b2,b)): bad+=1; print("concat BAD",D,lead,ax)
        # expand/combine on each leading axis with size dividing
        for ax in range(len(lead)):
            for t in types: pass
            ok=all(m[t].shape[ax]%1==0 for t in types)
            e=m.expand(ax,1); 
            if not same(e.combine_axes((ax,ax+1)),m) or not same(e.merge_axes((ax,ax+1)),m): bad+=1; print("expand BAD")
        # pmap reshape (axis 0) - requires equal first axis across types: only if len(lead)>1
        if len(lead)>1:
            for nd in [1,2]:
                if lead[0]%nd==0:
                    r=m.reshape_pmap([None]*nd)
                    if not same(r.merge_axes((0,1)),m): bad+=1; print("pmap BAD")
        if len(lead)>=1:
            s=m.to_scalar_multi_image()
            if not same(s.from_scalar_multi_image(m.get_signature()),m): bad+=1; print("scalar BAD",D,lead)
    # copy
    if not same(m.copy(),m): bad+=1
    # images
    if len(lead)==1:
        ims=m.to_images(); m2=geom.MultiImage.from_images(ims)
        if not same(m2,m): bad+=1; print("images BAD",D,lead)
print("C13 n",n,"bad",bad)
