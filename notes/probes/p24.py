# C08 blocks under all g with an independent reference action, d=2,3, non-square, patch 2/3, translations; C10 GroupAverage over subgroups
import itertools as it, numpy as np, jax, jax.numpy as jnp, jax.random as random, time
import equinox as eqx
import ginjax.geometric as geom, ginjax.ml as ml, ginjax.models as models
exec(open('p20.py').read().split("n=0;bad=0;t0=time.time()")[0].split("import ginjax.geometric as geom")[1])
def act_mi(mi,g):
    D=mi.D; n=mi.get_n_leading()
    return geom.MultiImage({(k,p):jnp.array(ref_action(np.array(v),p,g,D,lead=n)) for (k,p),v in mi.items()},D,perm_axes(mi.is_torus,g))
def maxerr(a,b):
    if set(a.keys())!=set(b.keys()): return float('inf')
    e=0
    for k in a.keys():
        if a[k].shape!=b[k].shape: return float('inf')
        e=max(e,float(jnp.max(jnp.abs(a[k]-b[k]))) if a[k].size else 0)
    return e
def perturb(model,key,scale=0.3):
    params,static=eqx.partition(model,eqx.is_inexact_array)
    flat,td=jax.tree_util.tree_flatten(params)
    keys=random.split(key,max(len(flat),1))
    return eqx.combine(jax.tree_util.tree_unflatten(td,[l+scale*random.normal(k,l.shape) for l,k in zip(flat,keys)]),static)
t0=time.time(); worst={}
for D,sps in [(2,[(4,4),(6,4),(6,6)]),(3,[(2,2,2),(4,2,2)])]:
    G=Bd(D)
    for sp in sps:
        for c in [2,4]:
            sig=geom.Signature(tuple(((k,p),c) for k in [0,1] for p in [0,1] if not (k==0 and p==1)))  # avoid known pseudoscalar GN defect
            sig2=geom.Signature(tuple(((k,p),c) for k in [0,1,2] for p in [0,1]))
            def mk(sig,seed): return geom.MultiImage({(k,p):random.normal(random.PRNGKey(seed+7*k+p),(ch,)+sp+(D,)*k) for (k,p),ch in sig},D,(True,)+(False,)*(D-1))
            blocks=[("LayerNorm",perturb(ml.LayerNorm(sig,D),random.PRNGKey(1)),sig),
                    ("GroupNorm2",perturb(ml.GroupNorm(sig,D,2),random.PRNGKey(2)),sig),
                    ("VN gelu",perturb(ml.VectorNeuronNonlinear(sig2,D,jax.nn.gelu,key=random.PRNGKey(3)),random.PRNGKey(4)),sig2),
                    ("MaxNormPool2",ml.MaxNormPool(2),sig2)]
            if all(s%3==0 for s in sp): blocks.append(("MaxNormPool3",ml.MaxNormPool(3),sig2))
            blocks.append(("avgpool2",lambda m:m.average_pool(2),sig2))
            for name,blk,sg in blocks:
                x=mk(sg,11); y=blk(x)
                if isinstance(y,tuple): y=y[0]
                sc=max(float(jnp.max(jnp.abs(v))) for v in y.values())
                for g in G:
                    e=maxerr(blk(act_mi(x,g)),act_mi(y,g))/sc
                    worst[(name,D)]=max(worst.get((name,D),0),e)
                if "Pool" in name or "pool" in name:
                    pl=3 if name.endswith("3") else 2
                    for s in it.product(*[range(0,n_,pl) for n_ in sp]):
                        xs=geom.MultiImage({k:jnp.roll(v,s,axis=tuple(range(1,1+D))) for k,v in x.items()},D,x.is_torus)
                        ys=geom.MultiImage({k:jnp.roll(v,tuple(si//pl for si in s),axis=tuple(range(1,1+D))) for k,v in y.items()},D,y.is_torus)
                        worst[(name+" shift",D)]=max(worst.get((name+" shift",D),0),maxerr(blk(xs),ys)/sc)
        # GeometricImage unpool
        for k,p in [(0,0),(1,1),(2,0)]:
            im=geom.GeometricImage(random.normal(random.PRNGKey(5),sp+(D,)*k),p,D,False)
            u=im.unpool(2)
            for g in G:
                gi=geom.GeometricImage(jnp.array(ref_action(np.array(im.data),p,g,D)),p,D,False)
                e=float(jnp.max(jnp.abs(gi.unpool(2).data-jnp.array(ref_action(np.array(u.data),p,g,D)))))
                worst[("unpool",D)]=max(worst.get(("unpool",D),0),e)
for k,v in sorted(worst.items()): print("C08",k,"max rel err %.2e"%v)
print("t=%.0f"%(time.time()-t0))
