# C10 GroupAverage over all <=2-generated subgroups of B_2 and some of B_3 with a deliberately non-equivariant inner model
import itertools as it, numpy as np, jax, jax.numpy as jnp, jax.random as random, time
import ginjax.geometric as geom, ginjax.ml as ml, ginjax.models as models
exec(open('p20.py').read().split("n=0;bad=0;t0=time.time()")[0].split("import ginjax.geometric as geom")[1])
def closure(gens,D):
    key=lambda m:tuple(m.ravel()); S={key(np.eye(D,dtype=int)):np.eye(D,dtype=int)}; fr=list(S.values())
    while fr:
        new=[]
        for a in fr:
            for g in gens:
                b=a@g
                if key(b) not in S: S[key(b)]=b; new.append(b)
        fr=new
    return list(S.values())
def subgroups(D):
    G=Bd(D); seen={}
    for a in G:
        for b in G:
            H=closure([a,b],D); k=frozenset(tuple(h.ravel()) for h in H)
            seen.setdefault(k,H)
    return list(seen.values())
class Inner(models.MultiImageModule):
    W: dict
    def __call__(self,x,aux=None):
        out=x.empty()
        for (k,p),v in x.items():
            w=self.W[(k,p)]
            out.append(k,p,jnp.tanh(v*w)+ (v**2)*0.1 + jnp.flip(v,axis=0)*w*0.3)   # position dependent, nonlinear, channel mixing by flip
        return out,aux
t0=time.time()
for D,N in [(2,4),(3,3)]:
    subs=subgroups(D)
    print("D",D,"#subgroups(<=2-generated)",len(subs),sorted(set(len(h) for h in subs)))
    sig=[(0,0),(0,1),(1,0),(1,1)]+([(2,0)] if D==2 else [])
    x=geom.MultiImage({(k,p):random.normal(random.PRNGKey(3*k+p),(2,)+(N,)*D+(D,)*k) for (k,p) in sig},D)
    W={(k,p):random.normal(random.PRNGKey(50+3*k+p),(2,)+(N,)*D+(D,)*k) for (k,p) in sig}
    inner=Inner(W)
    worst=0; ctrl=0
    chosen=subs if D==2 else [h for h in subs if len(h) in (1,2,3,4,6,8,48)][:25]
    for H in chosen:
        wrap=models.GroupAverage(inner,H,always_average=True)
        y=wrap(x)[0]
        for g in H:
            l=wrap(x.times_group_element(g))[0]; r=y.times_group_element(g)
            worst=max(worst,max(float(jnp.max(jnp.abs(l[k]-r[k]))) for k in r.keys()))
    # negative control: inner model alone is not equivariant
    g=Bd(D)[3]; l=inner(x.times_group_element(g))[0]; r=inner(x)[0].times_group_element(g)
    ctrl=max(float(jnp.max(jnp.abs(l[k]-r[k]))) for k in r.keys())
    off=models.GroupAverage(inner,Bd(D))
    same=all(bool(jnp.all(off(x)[0][k]==inner(x)[0][k])) for k in x.keys())
    print("D",D,"groups",len(chosen),"worst err %.2e"%worst,"inner alone err %.2e"%ctrl,"off==inner",same,"t=%.0f"%(time.time()-t0))
