import time, itertools as it, numpy as np
import jax, jax.numpy as jnp, jax.random as random
import equinox as eqx
import ginjax.geometric as geom, ginjax.ml as ml, ginjax.models as models
def ids(shape, base=0): return jnp.arange(base, base+int(np.prod(shape)), dtype=jnp.float32).reshape(shape)
# C13 scalar round trip across leading axes, k, D
bad=[]
for D in [1,2,3]:
  for nlead in [1,2,3]:
    lead_shapes={1:[(2,)],2:[(3,2)],3:[(2,3,2)]}[nlead]
    for lead in lead_shapes:
      types=[(0,0),(0,1)] if D==1 else [(0,0),(1,0),(2,1),(3,0),(1,1)]
      for r in range(1,3):
        for combo in it.permutations(types,r):
          sp=(2,3,4)[:D]
          data={}
          for i,(k,p) in enumerate(combo):
              c=i+1
              shape=lead[:-1]+(c,)+sp+(D,)*k
              data[(k,p)]=ids(shape, 1000*i)
          m=geom.MultiImage(data,D,(True,)*D)
          try:
              s=m.to_scalar_multi_image()
              back=s.from_scalar_multi_image(m.get_signature())
              ok = list(back.keys())==list(m.keys()) and all(back[k].shape==m[k].shape and bool(jnp.all(back[k]==m[k])) for k in m.keys())
          except Exception as e:
              ok=False; print("exc",D,nlead,combo,repr(e)[:100])
          if not ok: bad.append((D,nlead,combo))
print("C13 scalar roundtrip bad:",len(bad), bad[:5])
# to_vector/from_vector
# C14 norm with leading axes
for D in [2,3]:
  for lead in [(2,),(3,2),(2,3,2)]:
    sp=(2,3,4)[:D]
    m=geom.MultiImage({(1,0):random.normal(random.PRNGKey(0),lead+sp+(D,)),(2,1):random.normal(random.PRNGKey(1),lead[:-1]+(1,)+sp+(D,D))},D)
    n=m.norm()
    exp=np.concatenate([np.sqrt((np.array(m[(1,0)])**2).sum(-1)), np.sqrt((np.array(m[(2,1)])**2).sum((-1,-2)))],axis=len(lead)-1)
    print("C14 norm",D,lead,n[(0,0)].shape, np.allclose(n[(0,0)],exp,atol=1e-5))
