import time, itertools as it, numpy as np
import jax, jax.numpy as jnp, jax.random as random
import equinox as eqx
import ginjax.geometric as geom, ginjax.ml as ml, ginjax.models as models
D=2; N=8
ops=geom.make_all_operators(D)
t=time.time()
cf=geom.get_invariant_filters([3],[0,1,2],[0,1],D,ops)
uf=geom.get_invariant_filters([2],[0,1,2],[0,1],D,ops)
print("filters",time.time()-t, cf.get_signature(), uf.get_signature())
key=random.PRNGKey(0)
ink=geom.Signature((((0,0),2),((1,0),1)))
outk=geom.Signature((((1,0),1),((0,1),1)))
def perturb(model,key,scale=0.3):
    leaves,treedef=jax.tree_util.tree_flatten(model)
    # identify filter leaves
    is_filter=lambda x: False
    params,static=eqx.partition(model,eqx.is_inexact_array)
    # zero-out perturbation for invariant_filters via where
    def walk(m):
        return m
    flat,td=jax.tree_util.tree_flatten(params)
    keys=random.split(key,len(flat))
    newflat=[l+scale*random.normal(k,l.shape) for l,k in zip(flat,keys)]
    newp=jax.tree_util.tree_unflatten(td,newflat)
    newm=eqx.combine(newp,static)
    # restore filters
    def get_filters(m):
        out=[]
        def rec(o):
            if isinstance(o,ml.ConvContract): out.append(o.invariant_filters)
            elif isinstance(o,eqx.Module):
                for v in vars(o).values(): rec(v)
            elif isinstance(o,(list,tuple)):
                for v in o: rec(v)
            elif isinstance(o,dict):
                for v in o.values(): rec(v)
        rec(m); return out
    newm=eqx.tree_at(get_filters,newm,get_filters(model))
    return newm
x=geom.MultiImage({(0,0):random.normal(key,(2,N,N)),(1,0):random.normal(random.PRNGKey(5),(1,N,N,2))},D,True)
for name,ctor in [
 ("ResNet", lambda k: models.ResNet(D,ink,outk,depth=2,num_blocks=1,equivariant=True,conv_filters=cf,key=k)),
 ("DilResNet", lambda k: models.DilResNet(D,ink,outk,depth=2,num_blocks=1,equivariant=True,conv_filters=cf,use_group_norm=True,key=k)),
 ("UNet", lambda k: models.UNet(D,ink,outk,depth=2,num_downsamples=2,num_conv=1,equivariant=True,conv_filters=cf,upsample_filters=uf,use_group_norm=True,key=k)),
]:
    t=time.time()
    try:
        m=ctor(key); m=perturb(m,random.PRNGKey(7))
        y,_=m(x)
        print(name,"out sig",y.get_signature(),"t",round(time.time()-t,1))
        errs=[]
        for g in ops:
            l,_=m(x.times_group_element(g)); r=y.times_group_element(g)
            errs.append(max(float(jnp.max(jnp.abs(l[k]-r[k]))) for k in r.keys()))
        scale=max(float(jnp.max(jnp.abs(v))) for v in y.values())
        print(name,"max equiv err",max(errs),"scale",scale,"t",round(time.time()-t,1))
    except Exception as e:
        import traceback; traceback.print_exc()
