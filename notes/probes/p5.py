import time, itertools as it, numpy as np
import jax, jax.numpy as jnp, jax.random as random
import equinox as eqx
import ginjax.geometric as geom, ginjax.ml as ml, ginjax.models as models
D=2; N=8
ops=geom.make_all_operators(D)
cf=geom.get_invariant_filters([3],[0,1,2],[0,1],D,ops)
key=random.PRNGKey(0)
def get_filters(m):
    out=[]
    def rec(o):
        if isinstance(o,ml.ConvContract): out.append(o.invariant_filters)
        elif isinstance(o,eqx.Module):
            for v in vars(o).values(): rec(v)
        elif isinstance(o,(list,tuple)):
            for v in o: rec(v)
        elif isinstance(o,dict):
            for v in o.values(): rec(v)
    rec(m); return out
def perturb(model,key,scale=0.3):
    params,static=eqx.partition(model,eqx.is_inexact_array)
    flat,td=jax.tree_util.tree_flatten(params)
    keys=random.split(key,len(flat))
    newflat=[l+scale*random.normal(k,l.shape) for l,k in zip(flat,keys)]
    newm=eqx.combine(jax.tree_util.tree_unflatten(td,newflat),static)
    fs=get_filters(model)
    return eqx.tree_at(get_filters,newm,fs) if fs else newm
def eqerr(m,x):
    f=(lambda z: m(z)[0]) if isinstance(m,models.MultiImageModule) else m
    y=f(x); errs=[]
    for g in ops:
        l=f(x.times_group_element(g)); r=y.times_group_element(g)
        errs.append(max(float(jnp.max(jnp.abs(l[k]-r[k]))) for k in r.keys()))
    return max(errs), max(float(jnp.max(jnp.abs(v))) for v in y.values())
def mk(sig):
    return geom.MultiImage({(k,p):random.normal(random.PRNGKey(10*k+p),(c,N,N)+(D,)*k) for (k,p),c in sig},D,True)
sigs={"s+v":geom.Signature((((0,0),2),((1,0),2))), "ps+pv":geom.Signature((((0,1),2),((1,1),2))), "all":geom.Signature((((0,0),2),((1,0),2),((0,1),2),((1,1),2)))}
for sn,sig in sigs.items():
    x=mk(sig)
    for pert in [False,True]:
        for name,ctor in [
          ("ConvContract auto", lambda k: ml.ConvContract(sig,sig,cf,"auto",key=k)),
          ("ConvContract mean", lambda k: ml.ConvContract(sig,sig,cf,"mean",key=k)),
          ("LayerNorm", lambda k: ml.LayerNorm(sig,D)),
          ("GroupNorm2", lambda k: ml.GroupNorm(sig,D,2)),
          ("VN relu", lambda k: ml.VectorNeuronNonlinear(sig,D,jax.nn.relu,key=k)),
          ("VN gelu", lambda k: ml.VectorNeuronNonlinear(sig,D,jax.nn.gelu,key=k)),
          ("MaxNormPool", lambda k: ml.MaxNormPool(2)),
          ("ConvBlock gn", lambda k: models.ConvBlock(D,sig,sig,conv_filters=cf,use_group_norm=True,key=k)),
          ("ConvBlock pre", lambda k: models.ConvBlock(D,sig,sig,conv_filters=cf,use_group_norm=True,preactivation_order=True,key=k)),
        ]:
            try:
                m=ctor(key)
                if pert: m=perturb(m,random.PRNGKey(3))
                e,s=eqerr(m,x)
                print(f"{sn:6s} pert={pert!s:5s} {name:18s} err={e:.2e} scale={s:.2e}")
            except Exception as ex:
                print(sn,pert,name,"EXC",repr(ex)[:120])
