import time, itertools as it, numpy as np
import jax, jax.numpy as jnp, jax.random as random
import equinox as eqx
import ginjax.geometric as geom, ginjax.ml as ml, ginjax.models as models
exec(open('p5.py').read().split("def mk(sig)")[0].split("D=2; N=8")[1].replace("cf=geom","cf=geom")) if False else None
D=2; N=8
ops=geom.make_all_operators(D)
cf=geom.get_invariant_filters([3],[0,1,2],[0,1],D,ops)
uf=geom.get_invariant_filters([2],[0,1,2],[0,1],D,ops)
key=random.PRNGKey(0)
src=open('p5.py').read()
start=src.index("def get_filters"); end=src.index("def mk(sig)")
exec(src[start:end])
ink=geom.Signature((((0,0),2),((1,0),1)))
x=geom.MultiImage({(0,0):random.normal(key,(2,N,N)),(1,0):random.normal(random.PRNGKey(5),(1,N,N,2))},D,True)
for outname,outk in [("v+pv",geom.Signature((((1,0),1),((1,1),1)))),("v+ps",geom.Signature((((1,0),1),((0,1),1))))]:
  for gn in [True,False]:
    for name,ctor in [
     ("ResNet", lambda k: models.ResNet(D,ink,outk,depth=2,num_blocks=1,equivariant=True,conv_filters=cf,use_group_norm=gn,key=k)),
     ("DilResNet", lambda k: models.DilResNet(D,ink,outk,depth=2,num_blocks=1,equivariant=True,conv_filters=cf,use_group_norm=gn,key=k)),
     ("UNet", lambda k: models.UNet(D,ink,outk,depth=2,num_downsamples=2,num_conv=1,equivariant=True,conv_filters=cf,upsample_filters=uf,use_group_norm=gn,key=k)),
    ]:
        t=time.time()
        m=perturb(ctor(key),random.PRNGKey(7))
        e,s=eqerr(m,x)
        print(outname,"gn",gn,name,f"err={e:.2e} scale={s:.2e} t={time.time()-t:.1f}")
