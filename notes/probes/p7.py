import time, itertools as it, numpy as np, sys
import jax, jax.numpy as jnp
import ginjax.geometric as geom
def ref_conv(D, img, flt, is_torus, stride, padding, lhs_dil, rhs_dil):
    # img (b,c,spatial,tensor k) ints ; flt (o,c,spatial,tensor k')
    b,c=img.shape[:2]; o=flt.shape[0]
    sp=img.shape[2:2+D]; k=img.ndim-2-D
    M=flt.shape[2:2+D]; kf=flt.ndim-2-D
    if isinstance(is_torus,bool): is_torus=(is_torus,)*D
    if not isinstance(stride,tuple): stride=(stride,)*D
    if not isinstance(rhs_dil,tuple): rhs_dil=(rhs_dil,)*D
    if padding is None: padding="TORUS" if any(is_torus) else "SAME"
    P=img
    if padding=="TORUS":
        pw=[(0,0),(0,0)]+[((((m-1)//2)*r,)*2 if t else (0,0)) for m,r,t in zip(M,rhs_dil,is_torus)]+[(0,0)]*k
        P=np.pad(P,pw,mode="wrap")
        lit=[((0,0) if t else ((((m-1)//2)*r,)*2)) for m,r,t in zip(M,rhs_dil,is_torus)]
    elif padding=="VALID": lit=[(0,0)]*D
    elif padding=="SAME": lit=[((((m-1)//2)*r,)*2) for m,r in zip(M,rhs_dil)]
    elif isinstance(padding,int): lit=[(padding,padding)]*D
    else: lit=list(padding)
    if lhs_dil is not None:
        newsp=tuple((n-1)*l+1 for n,l in zip(P.shape[2:2+D],lhs_dil))
        Q=np.zeros(P.shape[:2]+newsp+P.shape[2+D:],dtype=P.dtype)
        sl=(slice(None),slice(None))+tuple(slice(None,None,l) for l in lhs_dil)
        Q[sl]=P; P=Q
    P=np.pad(P,[(0,0),(0,0)]+lit+[(0,0)]*k)
    psp=P.shape[2:2+D]
    osp=tuple((n-(m-1)*r-1)//s+1 for n,m,r,s in zip(psp,M,rhs_dil,stride))
    out=np.zeros((b,o)+osp+(D,)*(k+kf),dtype=np.int64)
    for a in it.product(*[range(m) for m in M]):
        sl=(slice(None),slice(None))+tuple(slice(ai*r, ai*r+(on-1)*s+1, s) for ai,r,on,s in zip(a,rhs_dil,osp,stride))
        patch=P[sl]  # (b,c,osp,k)
        f=flt[(slice(None),slice(None))+a]  # (o,c,kf)
        # out[b,o,x,K,Kf]+= sum_c patch[b,c,x,K]*f[o,c,Kf]
        pa=patch.reshape(b,c,-1,D**k); fa=f.reshape(o,c,D**kf)
        out+=np.einsum('bcxk,ocf->boxkf',pa,fa).reshape(out.shape)
    return out
rng=np.random.default_rng(0)
nbad=0; n=0; t0=time.time()
D=2
for sp in [(4,4),(3,5)]:
 for k,kf in [(0,0),(1,1),(2,1)]:
  for M in [(3,3),(2,2),(1,3)]:
   for tor in it.product([True,False],repeat=D):
    for pad in ["TORUS","SAME","VALID",1,((1,2),(0,1)),None]:
     for stride in [1,2]:
      for rd in [1,2,(1,2)]:
       for ld in [None,(2,2)]:
        if any(m%2==0 for m in M) and pad in ("TORUS","SAME",None): continue
        img=rng.integers(-3,4,size=(2,2)+sp+(D,)*k); flt=rng.integers(-3,4,size=(3,2)+M+(D,)*kf)
        try:
            got=np.array(geom.convolve(D,jnp.array(img,dtype=jnp.float32),jnp.array(flt,dtype=jnp.float32),tor,stride,pad,ld,rd))
        except Exception as e:
            got=("EXC",repr(e)[:80])
        try:
            exp=ref_conv(D,img,flt,tor,stride,pad,ld,rd)
        except Exception as e:
            exp=("REFEXC",repr(e)[:80])
        n+=1
        ok = (not isinstance(got,tuple)) and (not isinstance(exp,tuple)) and got.shape==exp.shape and np.array_equal(got,exp)
        if isinstance(got,tuple) and isinstance(exp,tuple): ok=True
        if not ok:
            nbad+=1
            if nbad<15: print("BAD",sp,k,kf,M,tor,pad,stride,rd,ld, got if isinstance(got,tuple) else got.shape, exp if isinstance(exp,tuple) else exp.shape)
print("n",n,"bad",nbad,"t",time.time()-t0)
