import time, itertools as it, numpy as np
import jax, jax.numpy as jnp, jax.random as random
import ginjax.geometric as geom, ginjax.ml as ml, ginjax.data as gdata
# C15 exhaustive small
D=2; sp=(2,2)
def enc(t,c,T,typ): return typ*10000+c*100+t
bad=0;n=0
for T in range(2,8):
 for p in range(1,4):
  for f in range(1,3):
   for dt in range(1,3):
    for s in range(0,3):
      W=T-s-(p+f-1)*dt
      if W<1: continue
      dyn={}
      for ti,((k,par),c) in enumerate([((0,0),2),((1,0),1)]):
          arr=np.zeros((c,T)+sp+(D,)*k)
          for ci in range(c):
              for t in range(T): arr[ci,t]=enc(t,ci,T,ti)
          dyn[(k,par)]=jnp.array(arr.reshape((c*T,)+sp+(D,)*k))
      const={(0,0):jnp.full((1,)+sp,777.)}
      X,Y=gdata.times_series_to_multi_images(geom.MultiImage(dyn,D),geom.MultiImage(const,D),T,p,f,s,dt,0)
      n+=1
      ok=True
      for ti,((k,par),c) in enumerate([((0,0),2),((1,0),1)]):
          x=np.array(X[(k,par)]); y=np.array(Y[(k,par)])
          if x.shape[0]!=W or y.shape[0]!=W: ok=False;break
          nconst=1 if (k,par)==(0,0) else 0
          if x.shape[1]!=c*p+nconst or y.shape[1]!=c*f: ok=False;break
          for w in range(W):
              for ci in range(c):
                  for j in range(p):
                      if x[w,ci*p+j].flat[0]!=enc(s+w+j*dt,ci,T,ti): ok=False
                  for j in range(f):
                      if y[w,ci*f+j].flat[0]!=enc(s+w+(p+j)*dt,ci,T,ti): ok=False
              if nconst and x[w,c*p].flat[0]!=777.: ok=False
      if not ok: bad+=1; print("C15 BAD",T,p,f,dt,s)
print("C15 n",n,"bad",bad)
# C17
bad=0;n=0
for L in range(1,7):
  for B in range(1,L+1):
    for key in [None, random.PRNGKey(0), random.PRNGKey(3)]:
      for nd in [d for d in range(1,B+1) if B%d==0]:
        X=geom.MultiImage({(0,0):jnp.arange(L,dtype=jnp.float32).reshape(L,1,1,1)*jnp.ones((L,2,2,2)),(1,0):jnp.arange(L,dtype=jnp.float32).reshape(L,1,1,1,1)*jnp.ones((L,1,2,2,2))},2)
        Y=geom.MultiImage({(0,1):100+jnp.arange(L,dtype=jnp.float32).reshape(L,1,1,1)*jnp.ones((L,1,2,2))},2)
        try:
            xb,yb=ml.get_batches((X,Y),B,key,[None]*nd)
        except Exception as e:
            print("C17 exc",L,B,nd,repr(e)[:100]); bad+=1; continue
        n+=1
        seen=[]
        ok=len(xb)==L//B
        for xx,yy in zip(xb,yb):
            a=np.array(xx[(0,0)]).reshape(B,-1)[:,0]; b=np.array(xx[(1,0)]).reshape(B,-1)[:,0]; c=np.array(yy[(0,1)]).reshape(B,-1)[:,0]-100
            if not (np.array_equal(a,b) and np.array_equal(a,c)): ok=False
            if xx[(0,0)].shape[:2]!=(nd,B//nd): ok=False
            seen+=list(a)
        if len(set(seen))!=len(seen): ok=False
        if key is None and seen!=list(range((L//B)*B)): ok=False
        if not ok: bad+=1; print("C17 BAD",L,B,key,nd)
print("C17 n",n,"bad",bad)
