import time, itertools as it, numpy as np
import jax, jax.numpy as jnp, jax.random as random
import ginjax.geometric as geom, ginjax.ml as ml, ginjax.models as models
D=2; sp=(2,2)
# model: history-sensitive integer map: for each out type t with c dyn channels: pred[c] = sum_j (j+2)*x_t[c,j] + 7*sum(const of any type scalar-part) + (c+1)
def make_model(dyn_sig, past, const_sig):
    def model(x, aux=None):
        out=x.empty()
        for (k,p),c in dyn_sig.items():
            blk=x[(k,p)]
            nconst=const_sig.get((k,p),0)
            dynb=blk[:blk.shape[0]-nconst].reshape((c,past)+blk.shape[1:])
            w=jnp.arange(2,2+past,dtype=jnp.float32).reshape((1,past)+(1,)*(blk.ndim-1))
            pred=(dynb*w).sum(1)+jnp.arange(1,c+1,dtype=jnp.float32).reshape((c,)+(1,)*(blk.ndim-1))
            if nconst: pred=pred+3*blk[blk.shape[0]-nconst:].sum(0,keepdims=True)
            out.append(k,p,pred)
        return out,aux
    return model
def ref_rollout(xd, dyn_sig, past, const_sig, n, model_np):
    pass
bad=0;n_=0
types=[(0,0),(1,0),(0,1)]
for past in [1,2,3]:
 for nsteps in [1,2,3]:
  for dyn_types in [[(0,0)],[(1,0),(0,0)],[(0,0),(1,0),(0,1)]]:
   for const_types in [{},{(0,0):1},{(1,0):2},{(0,1):1,(0,0):2}]:
    for order in set(it.permutations(sorted(set(dyn_types)|set(const_types)))):
      dyn_sig={t:(i+1) for i,t in enumerate(dyn_types)}
      rng=np.random.default_rng(1)
      data={}
      for t in order:
          k,p=t
          c=dyn_sig.get(t,0)*past+const_types.get(t,0)
          data[t]=jnp.array(rng.integers(-2,3,size=(c,)+sp+(D,)*k).astype(np.float32))
      x=geom.MultiImage(data,D)
      model=make_model(dyn_sig,past,const_types)
      try:
          out,_=ml.autoregressive_map(model,x,None,past,nsteps,const_types)
      except Exception as e:
          print("C16 EXC",past,nsteps,dyn_types,const_types,order,repr(e)[:150]); bad+=1; continue
      # reference
      cur={t:np.array(v) for t,v in data.items()}
      preds={t:[] for t in dyn_sig}
      for s in range(nsteps):
          pr,_=model(geom.MultiImage({t:jnp.array(v) for t,v in cur.items()},D))
          new={}
          for t in order:
              nconst=const_types.get(t,0)
              if t in dyn_sig:
                  c=dyn_sig[t]
                  blk=cur[t]; dynb=blk[:c*past].reshape((c,past)+blk.shape[1:])
                  p_=np.array(pr[t]); preds[t].append(p_)
                  nd=np.concatenate([dynb[:,1:],p_[:,None]],axis=1).reshape((c*past,)+blk.shape[1:])
                  new[t]=np.concatenate([nd,blk[c*past:]],axis=0)
              else: new[t]=cur[t]
          cur=new
      n_+=1
      ok=set(out.keys())==set(dyn_sig)
      for t in dyn_sig:
          exp=np.stack(preds[t],axis=1).reshape((-1,)+preds[t][0].shape[1:])
          if t not in out or out[t].shape!=exp.shape or not np.array_equal(np.array(out[t]),exp): ok=False
      if not ok: bad+=1; print("C16 BAD",past,nsteps,dyn_types,const_types,order)
print("C16 n",n_,"bad",bad)
