#!/venv/bin/python
"""CLI: run.py <Cxx> --tier quick|thorough [--replay FILE] [--src DIR] [--jobs N]"""
import os
import sys

sys.path.insert(0, os.path.dirname(os.path.abspath(__file__)))
from vlib.runner import main

if __name__ == "__main__":
    main()
