#!/venv/bin/python
"""setup_cmd: self-test of the reference models (they must not themselves be the bug). No ginjax import."""
import itertools as it
import os
import sys

import numpy as np

sys.path.insert(0, os.path.dirname(os.path.abspath(__file__)))
from vlib.ref import group as G
from vlib.ref.action import ref_action, perm_axes, rotated_dims
from vlib.ref.conv import ref_conv, ref_conv_contract


def main():
    n = 0
    for D, size in ((1, 2), (2, 8), (3, 48)):
        B = G.Bd(D)
        assert len(B) == size and G.is_group(B)
        for g in B:
            assert abs(G.det(g)) == 1 and np.array_equal(g @ g.T, np.eye(D, dtype=int))
    assert len(G.subgroups_2gen(2)) == 10
    # reference action is a homomorphism and linear, on shapes with distinct extents
    rng = np.random.default_rng(0)
    for D, sp, k in ((2, (2, 3), 1), (2, (3, 3), 2), (3, (2, 3, 4), 1), (3, (1, 2, 2), 2)):
        B = G.Bd(D)
        A = rng.integers(-5, 6, size=sp + (D,) * k).astype(np.int64)
        for p in (0, 1):
            assert np.array_equal(ref_action(A, p, np.eye(D, dtype=int), D), A)
            for g in B:
                gA = ref_action(A, p, g, D)
                assert gA.shape[:D] == rotated_dims(sp, g)
                assert np.array_equal(ref_action(gA, p, g.T, D), A)
                for h in B[:: max(1, len(B) // 8)]:
                    assert np.array_equal(ref_action(ref_action(A, p, h, D), p, g, D), ref_action(A, p, g @ h, D))
                    n += 1
    # rotation by 90 degrees of a 2x2 scalar image, by hand: (g.A)(x) = A(g^-1 x)
    A = np.array([[1, 2], [3, 4]])
    r = np.array([[0, -1], [1, 0]])
    assert np.array_equal(ref_action(A, 0, r, 2), np.array([[2, 4], [1, 3]])), ref_action(A, 0, r, 2)
    assert perm_axes((True, False), r) == (False, True)
    # reference convolution against a literal quadruple loop in d=2
    for trial in range(20):
        sp = (int(rng.integers(2, 5)), int(rng.integers(2, 5)))
        M = (int(rng.integers(1, 4)), int(rng.integers(1, 4)))
        s, r_ = int(rng.integers(1, 3)), int(rng.integers(1, 3))
        pad = ((int(rng.integers(0, 3)), int(rng.integers(0, 3))), (int(rng.integers(0, 3)), int(rng.integers(0, 3))))
        img = rng.integers(-3, 4, size=(1, 2) + sp)
        flt = rng.integers(-3, 4, size=(2, 2) + M)
        got = ref_conv(2, img, flt, False, s, pad, None, r_)
        P = np.pad(img, [(0, 0), (0, 0), pad[0], pad[1]])
        osp = tuple(max(0, (P.shape[2 + i] - (M[i] - 1) * r_ - 1) // s + 1) for i in range(2))
        exp = np.zeros((1, 2) + osp, dtype=np.int64)
        for o in range(2):
            for i in range(osp[0]):
                for j in range(osp[1]):
                    for c in range(2):
                        for a in range(M[0]):
                            for b in range(M[1]):
                                exp[0, o, i, j] += P[0, c, i * s + a * r_, j * s + b * r_] * flt[o, c, a, b]
        assert got.shape == exp.shape and np.array_equal(got, exp)
    # torus wrap: convolution with a one-hot filter is a cyclic shift
    img = np.arange(12).reshape(1, 1, 3, 4)
    flt = np.zeros((1, 1, 3, 3), dtype=int)
    flt[0, 0, 0, 1] = 1
    assert np.array_equal(ref_conv(2, img, flt, True)[0, 0], np.roll(img[0, 0], 1, axis=0))
    # contraction reference
    v = rng.integers(-3, 4, size=(1, 1, 3, 3, 2))
    f = rng.integers(-3, 4, size=(1, 1, 3, 3, 2, 2))
    full = ref_conv(2, v, f, True)
    assert np.array_equal(ref_conv_contract(2, v, f, True), np.einsum("boxyiij->boxyj", full))
    assert G.burnside_dim(G.Bd(2), 3, 0, 0, 2) == 3 and G.burnside_dim(G.Bd(2), 3, 0, 1, 2) == 0
    print(f"selftest ok ({n} homomorphism instances)")


if __name__ == "__main__":
    main()
