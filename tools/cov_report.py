#!/venv/bin/python
"""Which executable lines of /repo/src/ginjax does no enumerated case of any (or of one) quick check reach?

usage: VERIF_COV=/var/tmp/vcov /venv/bin/python run.py Cxx --tier quick   (for each check), then
       tools/cov_report.py /var/tmp/vcov [--per-check]
Executable lines are taken from the compiled code objects (function bodies only; module-level def/import lines are
ignored). Output: per file and function, the uncovered line ranges. Purely diagnostic: it points at alphabet blind spots.
"""
import ast
import glob
import json
import os
import sys

SRC = "/repo/src/"


def body_lines(path):
    src = open(path).read()
    tree = ast.parse(src)
    out = {}  # line -> qualified function name

    def visit(node, qual):
        for ch in ast.iter_child_nodes(node):
            if isinstance(ch, (ast.FunctionDef, ast.AsyncFunctionDef)):
                q = f"{qual}.{ch.name}" if qual else ch.name
                code_lines = set()
                for st in ch.body:
                    for n in ast.walk(st):
                        if isinstance(n, ast.stmt) and not (isinstance(n, ast.Expr) and isinstance(getattr(n, "value", None), ast.Constant) and isinstance(n.value.value, str)):
                            code_lines.add(n.lineno)
                for l in code_lines:
                    out.setdefault(l, q)
                visit(ch, q)
            elif isinstance(ch, ast.ClassDef):
                visit(ch, f"{qual}.{ch.name}" if qual else ch.name)
            else:
                visit(ch, qual)

    visit(tree, "")
    return out


def main():
    d = sys.argv[1]
    per = {}
    for f in glob.glob(os.path.join(d, "*.json")):
        chk = os.path.basename(f).split(".")[0]
        per.setdefault(chk, set()).update(map(tuple, json.load(open(f))))
    allhits = set().union(*per.values()) if per else set()
    files = sorted(glob.glob(SRC + "ginjax/**/*.py", recursive=True))
    tot = cov = 0
    for path in files:
        rel = path[len(SRC):]
        bl = body_lines(path)
        miss = {}
        for l, q in sorted(bl.items()):
            tot += 1
            if (rel, l) in allhits:
                cov += 1
            else:
                miss.setdefault(q, []).append(l)
        if miss:
            print(f"== {rel}")
            for q, ls in miss.items():
                nfun = sum(1 for x in bl.values() if x == q)
                print(f"   {q}: {len(ls)}/{nfun} uncovered: {ls}")
    print(f"TOTAL function-body statements {tot}, reached by some quick check {cov} ({100*cov/max(tot,1):.1f}%)")
    print("checks:", {k: len(v) for k, v in sorted(per.items())})


if __name__ == "__main__":
    main()
