#!/venv/bin/python
"""Regenerate MANIFEST.json from the check modules present in checks/ (and validate if jsonschema is around)."""
import importlib
import json
import os
import sys

V = os.path.dirname(os.path.dirname(os.path.abspath(__file__)))
sys.path.insert(0, V)
props = [json.loads(l)["id"] for l in open(os.path.join(V, "properties.jsonl"))]
NOT_APPLICABLE = {}  # id -> reason, for properties that model checking genuinely cannot decide (none)
checks, na = [], []
for pid in props:
    path = os.path.join(V, "checks", f"{pid}.py")
    if not os.path.exists(path):
        na.append({"property_id": pid, "reason": NOT_APPLICABLE.get(pid, "check not built yet in this session (work in progress); nothing is claimed for this property")})
        continue
    m = importlib.import_module(f"checks.{pid}")
    c = m.CLAIM
    checks.append(
        {
            "property_id": pid,
            "quick_cmd": f"/venv/bin/python run.py {pid} --tier quick",
            "thorough_cmd": f"/venv/bin/python run.py {pid} --tier thorough",
            "evidence_file": f"/verif/evidence/{pid}.json",
            "replay_cmd_template": f"/venv/bin/python run.py {pid} --replay {{path}}",
            "engine": "explorer",
            "level_claimed": {"category": m.LEVEL, "text": c["text"], "design_ref": m.DESIGN_REF},
            "level_note": c["note"],
            "technique": c["technique"],
        }
    )
man = {
    "version": 1,
    "setup_cmd": "/venv/bin/python selftest.py",
    "hooks": {
        "guard": "GINJAX_VERIF",
        "enable": "no source hooks: every seam is a public attribute; the harness sets GINJAX_VERIF=1 and prepends /repo/src to sys.path, so checks always import the current working tree",
        "baseline_off_cmd": "cd /repo && /venv/bin/python -m pytest -ra -q -p no:cacheprovider --timeout=900 --continue-on-collection-errors",
        "source_commits": [],
        "add_only": True,
    },
    "engines": [
        {
            "name": "explorer",
            "path": "/verif/vlib/runner.py",
            "serves_properties": [c["property_id"] for c in checks],
            "kind_free_text": "hand-written bounded-exhaustive explorer for Python: enumerates every enabled cell of a finite alphabet / every operation history up to a depth / every well-typed term up to a size, executes each on the real ginjax code in a pool of worker processes and compares with independent numpy reference models (vlib/ref)",
        }
    ],
    "checks": checks,
    "not_applicable": na,
    "notes": "Deciding step is always exhaustive enumeration within the bounds recorded in evidence/<id>.json; see DESIGN.md. known_findings.txt lists fixed defects (fix: commits in /repo).",
}
json.dump(man, open(os.path.join(V, "MANIFEST.json"), "w"), indent=1)
print("claimed", [c["property_id"] for c in checks], "na", [n["property_id"] for n in na])
