#!/venv/bin/python
"""Mutation driver: apply a small realistic change to a scratch COPY of /repo/src and run checks against it.

usage: tools/mut.py <mutant-name|all> [--tier quick] [--checks C01,C04]   (mutants are listed in mutants/MUTANTS.py)
       tools/mut.py --patch file.diff --checks C01,...                     (a seeded patch, applied with `git apply`/patch -p1)
Scratch copies live under /var/tmp and are removed afterwards. Nothing in /repo is touched.
"""
import argparse
import importlib.util
import json
import os
import shutil
import subprocess
import sys
import tempfile
import time

V = os.path.dirname(os.path.dirname(os.path.abspath(__file__)))


def load_mutants():
    spec = importlib.util.spec_from_file_location("MUTANTS", os.path.join(V, "mutants", "MUTANTS.py"))
    m = importlib.util.module_from_spec(spec)
    spec.loader.exec_module(m)
    return m.MUTANTS


def make_copy():
    d = tempfile.mkdtemp(prefix="ginjax-mut-", dir="/var/tmp")
    shutil.copytree("/repo/src", os.path.join(d, "src"))
    return d


def apply_edits(d, edits):
    for e in edits:
        p = os.path.join(d, "src", "ginjax", e["file"])
        s = open(p).read()
        assert s.count(e["old"]) == 1, f"mutant anchor not unique/found in {e['file']}: {e['old'][:60]!r} ({s.count(e['old'])})"
        open(p, "w").write(s.replace(e["old"], e["new"]))


def run_checks(src, checks, tier, jobs):
    res = {}
    for c in checks:
        t = time.time()
        env = dict(os.environ, VERIF_SRC=src)
        p = subprocess.run([sys.executable, os.path.join(V, "run.py"), c, "--tier", tier, "--src", src, "--jobs", str(jobs)], capture_output=True, text=True, cwd=V, env=env)
        lines = [l for l in p.stdout.splitlines() if l.startswith(("VIOLATION", "  fingerprint", "KNOWN", "ERROR"))]
        res[c] = {"rc": p.returncode, "wall": round(time.time() - t, 1), "lines": lines[:6], "err": p.stderr[-400:] if p.returncode not in (0, 1) else ""}
    return res


def main():
    ap = argparse.ArgumentParser()
    ap.add_argument("name", nargs="?")
    ap.add_argument("--patch")
    ap.add_argument("--checks")
    ap.add_argument("--tier", default="quick")
    ap.add_argument("--jobs", type=int, default=os.cpu_count())
    ap.add_argument("--json")
    a = ap.parse_args()
    out = {}
    if a.patch:
        d = make_copy()
        try:
            r = subprocess.run(["patch", "-p1", "-d", d, "-i", os.path.abspath(a.patch)], capture_output=True, text=True)
            if r.returncode != 0:
                print("patch failed", r.stdout, r.stderr)
                sys.exit(3)
            out[a.patch] = run_checks(os.path.join(d, "src"), a.checks.split(","), a.tier, a.jobs)
        finally:
            shutil.rmtree(d, ignore_errors=True)
    else:
        muts = load_mutants()
        names = list(muts) if a.name == "all" else a.name.split(",")
        for nm in names:
            m = muts[nm]
            d = make_copy()
            try:
                apply_edits(d, m["edits"])
                checks = a.checks.split(",") if a.checks else m["checks"]
                out[nm] = run_checks(os.path.join(d, "src"), checks, a.tier, a.jobs)
            finally:
                shutil.rmtree(d, ignore_errors=True)
    for nm, r in out.items():
        for c, x in r.items():
            verdict = {0: "MISSED", 1: "CAUGHT"}.get(x["rc"], f"ERROR rc={x['rc']}")
            print(f"{nm:40s} {c} {verdict} {x['wall']}s")
            for l in x["lines"]:
                print("      ", l[:200])
            if x["err"]:
                print("      ", x["err"])
    if a.json:
        json.dump(out, open(a.json, "w"), indent=1)


if __name__ == "__main__":
    main()
