#!/venv/bin/python
"""Run every mutant of mutants/MUTANTS.py against its listed quick checks and write mutants/RESULTS.md."""
import importlib.util
import json
import os
import subprocess
import sys

V = os.path.dirname(os.path.dirname(os.path.abspath(__file__)))
sys.path.insert(0, os.path.join(V, "tools"))
import mut  # noqa

muts = mut.load_mutants()
rows = []
for nm, m in muts.items():
    d = mut.make_copy()
    try:
        mut.apply_edits(d, m["edits"])
        res = mut.run_checks(os.path.join(d, "src"), m["checks"], "quick", os.cpu_count())
    finally:
        import shutil

        shutil.rmtree(d, ignore_errors=True)
    rows.append((nm, m["why"], ", ".join(f"{c}: {'CAUGHT' if x['rc'] == 1 else ('MISSED' if x['rc'] == 0 else 'ERROR')}" for c, x in res.items()), next((l.strip()[:120] for x in res.values() for l in x["lines"] if l.startswith("  fingerprint")), "")))
    print(rows[-1][0], rows[-1][2], flush=True)
with open(os.path.join(V, "mutants", "RESULTS.md"), "w") as f:
    f.write("# Hand-written mutants vs the quick checks (scratch copies of /repo/src, run with --src)\n\n| mutant | change | result | first fingerprint |\n|---|---|---|---|\n")
    for r in rows:
        f.write("| " + " | ".join(r) + " |\n")
