#!/bin/bash
# Run every claimed quick (or $1) check against /repo, validate evidence + manifest. Exit non-zero on any alarm.
tier=${1:-quick}
cd /verif
rc=0
for c in $(ls checks | grep -E '^C[0-9]+\.py$' | sed 's/\.py//'); do
  out=$(/venv/bin/python run.py $c --tier $tier 2>&1 | grep -E "tier=|VIOLATION|ERROR|KNOWN-FINDING|fingerprint")
  echo "$out"
  echo "$out" | grep -qE "VIOLATION|ERROR" && rc=1
done
python3-vt - <<'P' || rc=1
import json,jsonschema,glob
jsonschema.validate(json.load(open('/verif/MANIFEST.json')), json.load(open('/root/.vp/MANIFEST.schema.json')))
n=0
for f in sorted(glob.glob('/verif/evidence/*.json')):
    ev=json.load(open(f)); jsonschema.validate(ev, json.load(open('/root/.vp/EVIDENCE.schema.json'))); n+=1
    assert ev['coverage']['src']=='/repo/src', (f, ev['coverage']['src'])
    assert ev.get('violations',0)==0, f
print('manifest + %d evidence files valid, all from /repo/src, 0 violations'%n)
P
exit $rc
