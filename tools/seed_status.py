#!/venv/bin/python
"""Re-run the quick check(s) against every kept seeded change (scratch copy of /repo/src + patch) and tabulate.

usage: tools/seed_status.py [--only C01-1,C04-2] [--tier quick]
Updates seeded/<name>/meta.json["caught_by_quick_checks"] and writes seeded/RESULTS.md.
"""
import argparse
import json
import os
import shutil
import subprocess
import sys
import tempfile

V = os.path.dirname(os.path.dirname(os.path.abspath(__file__)))
EXTRA = {"C05-2": ["C01"], "C06-1": ["C11"], "C06-2": ["C11"], "C13-2": ["C12"], "C20-1": ["C13"], "C09-1": ["C08"], "C07-1": ["C08"]}


def main():
    ap = argparse.ArgumentParser()
    ap.add_argument("--only", default="")
    ap.add_argument("--tier", default="quick")
    a = ap.parse_args()
    names = sorted(d for d in os.listdir(os.path.join(V, "seeded")) if os.path.isdir(os.path.join(V, "seeded", d)))
    if a.only:
        names = [n for n in names if n in a.only.split(",")]
    rows = []
    for n in names:
        d = os.path.join(V, "seeded", n)
        meta = json.load(open(os.path.join(d, "meta.json")))
        pid = meta["breaks_property"]
        tmp = tempfile.mkdtemp(prefix="seedst-", dir="/var/tmp")
        try:
            shutil.copytree("/repo/src", os.path.join(tmp, "src"))
            r = subprocess.run(["patch", "-p1", "-d", tmp, "-i", os.path.join(d, "patch.diff")], capture_output=True, text=True)
            if r.returncode != 0:
                rows.append((n, pid, "PATCH DOES NOT APPLY to the current tree", ""))
                continue
            res = {}
            for c in [pid] + EXTRA.get(n, []):
                p = subprocess.run([sys.executable, os.path.join(V, "run.py"), c, "--tier", a.tier, "--src", os.path.join(tmp, "src")], capture_output=True, text=True, cwd=V)
                fps = [l.strip() for l in p.stdout.splitlines() if l.startswith("  fingerprint")]
                res[c] = {"rc": p.returncode, "fingerprints": fps[:3]}
            meta["caught_by_quick_checks"] = res
            json.dump(meta, open(os.path.join(d, "meta.json"), "w"), indent=1)
            rows.append((n, pid, ", ".join(f"{c}: {'CAUGHT' if x['rc'] == 1 else ('missed' if x['rc'] == 0 else 'ERROR')}" for c, x in res.items()), (res[pid]["fingerprints"] or [""])[0][:140]))
        finally:
            shutil.rmtree(tmp, ignore_errors=True)
    # the table always covers every kept seed: rows of seeds not re-run now come from their meta.json
    done = {r[0] for r in rows}
    for n in sorted(d for d in os.listdir(os.path.join(V, "seeded")) if os.path.isdir(os.path.join(V, "seeded", d))):
        if n in done:
            continue
        meta = json.load(open(os.path.join(V, "seeded", n, "meta.json")))
        res = meta.get("caught_by_quick_checks") or {}
        def verdict(x):
            return "CAUGHT" if isinstance(x, dict) and x.get("rc") == 1 else ("missed" if isinstance(x, dict) and x.get("rc") == 0 else str(x)[:20])
        first = ""
        x = res.get(meta["breaks_property"])
        if isinstance(x, dict):
            first = ((x.get("fingerprints") or x.get("lines") or [""])[0] or "").strip()[:140]
        rows.append((n, meta["breaks_property"], ", ".join(f"{c}: {verdict(x)}" for c, x in res.items()), first))
    rows.sort()
    with open(os.path.join(V, "seeded", "RESULTS.md"), "w") as f:
        f.write("# Seeded changes (written by independent sub-agents from the property text only) vs the quick checks\n\n")
        f.write("Each change was confirmed in a fresh worktree: demo passes on the clean tree, fails with the patch, the existing\ntest suite passes with the patch (see meta.json). Checks were run with `--src <scratch copy + patch>`.\n\n")
        f.write("| seed | breaks | quick checks | first fingerprint |\n|---|---|---|---|\n")
        for r in rows:
            f.write("| " + " | ".join(r) + " |\n")
    for r in rows:
        print(*r[:3])


if __name__ == "__main__":
    main()
