#!/venv/bin/python
"""Confirm a sub-agent's seeded change in a fresh scratch worktree and file it under /verif/seeded/<name>/.

usage: tools/seed_verify.py <PID> <agent-dir> <i> [--tests tests/test_a.py,tests/test_b.py | --full]
Steps (all in a new worktree of /repo HEAD under /var/tmp, removed afterwards):
  demo on clean tree must exit 0; patch must apply; demo with patch must exit != 0; the chosen existing tests must pass with
  the patch. Then runs the property's quick check against the patched tree (--src) and records whether it is caught.
"""
import argparse
import json
import os
import shutil
import subprocess
import sys
import tempfile
import time

V = os.path.dirname(os.path.dirname(os.path.abspath(__file__)))


def sh(cmd, cwd=None, env=None, timeout=7200):
    p = subprocess.run(cmd, shell=True, cwd=cwd, env=env, capture_output=True, text=True, timeout=timeout)
    return p.returncode, (p.stdout + p.stderr)[-3000:]


def main():
    ap = argparse.ArgumentParser()
    ap.add_argument("pid")
    ap.add_argument("agent_dir")
    ap.add_argument("i")
    ap.add_argument("--tests", default="")
    ap.add_argument("--full", action="store_true")
    ap.add_argument("--checks", default="")
    ap.add_argument("--needs", default="")
    ap.add_argument("--name", default="")
    ap.add_argument("--no-suite", action="store_true", help="phase A only: demos + quick check, nothing is filed under seeded/")
    ap.add_argument("--jobs", default="")
    ap.add_argument("--phase-b", default="", help="JSON printed by an earlier --no-suite run: only the test suite is run (with the patch) and the change is filed")
    a = ap.parse_args()
    name = a.name or f"{a.pid}-{a.i}"
    patch = os.path.join(a.agent_dir, f"patch{a.i}.diff")
    demo = os.path.join(a.agent_dir, f"demo{a.i}.py")
    notes = os.path.join(a.agent_dir, f"notes{a.i}.md")
    wt = tempfile.mkdtemp(prefix=f"seedv-{name}-", dir="/var/tmp")
    os.rmdir(wt)
    rec = {"name": name, "property": a.pid, "ran": []}
    try:
        rc, out = sh(f"git -C /repo worktree add --detach {wt} HEAD -q")
        assert rc == 0, out
        rec["base_commit"] = sh("git -C /repo rev-parse --short HEAD")[1].strip()
        env = dict(os.environ, PYTHONPATH=f"{wt}/src", JAX_PLATFORMS="cpu", WANDB_MODE="disabled")
        prev = json.load(open(a.phase_b)) if a.phase_b else None
        if prev:
            rec["ran"] = [r for r in prev["ran"] if not r["cmd"].startswith("pytest")]
            rc0 = [r["rc"] for r in rec["ran"] if r["cmd"] == "demo on clean tree"][0]
            rc1 = [r["rc"] for r in rec["ran"] if r["cmd"] == "demo with patch"][0]
            rc, out = sh(f"git apply {patch}", cwd=wt)
            assert rc == 0, out
        else:
            shutil.copy(demo, os.path.join(wt, "demo.py"))
            rc0, out0 = sh("/venv/bin/python demo.py", cwd=wt, env=env)
            rec["ran"].append({"cmd": "demo on clean tree", "rc": rc0})
            rc, out = sh(f"git apply {patch}", cwd=wt)
            rec["ran"].append({"cmd": "git apply patch", "rc": rc, "out": out[-300:]})
            assert rc == 0, out
            rc1, out1 = sh("/venv/bin/python demo.py", cwd=wt, env=env)
            rec["ran"].append({"cmd": "demo with patch", "rc": rc1, "tail": out1[-400:]})
        tests = "tests" if a.full else " ".join(t for t in a.tests.split(",") if t)
        t0 = time.time()
        rct, outt = (-1, "skipped") if a.no_suite else sh(f"/venv/bin/python -m pytest -q -p no:cacheprovider --timeout=1800 -n 5 {tests}", cwd=wt, env=env)
        rec["ran"].append({"cmd": f"pytest {tests} (with patch)", "rc": rct, "tail": outt.strip().splitlines()[-1] if outt.strip() else "", "failed": [l for l in outt.splitlines() if l.startswith("FAILED") or "Timeout" in l][:5], "wall": round(time.time() - t0)})
        checks = [c for c in (a.checks or a.pid).split(",") if c]
        caught = dict(prev["checks_quick"]) if prev else {}
        for c in ([] if prev else checks):
            if not os.path.exists(os.path.join(V, "checks", f"{c}.py")):
                caught[c] = "no check yet"
                continue
            rcc, outc = sh(f"/venv/bin/python run.py {c} --tier quick --src {wt}/src" + (f" --jobs {a.jobs}" if a.jobs else ""), cwd=V)
            caught[c] = {"rc": rcc, "lines": [l for l in outc.splitlines() if l.startswith(("VIOLATION", "  fingerprint", "ERROR"))][:4]}
        rec["checks_quick"] = caught
        rec["confirmed"] = bool(rc0 == 0 and rc1 != 0 and rct == 0)
    finally:
        sh(f"git -C /repo worktree remove --force {wt}")
        shutil.rmtree(wt, ignore_errors=True)
    dst = os.path.join(V, "seeded", name)
    if rec.get("confirmed"):
        os.makedirs(dst, exist_ok=True)
        shutil.copy(patch, os.path.join(dst, "patch.diff"))
        shutil.copy(demo, os.path.join(dst, "demo.py"))
        if os.path.exists(notes):
            shutil.copy(notes, os.path.join(dst, "notes.md"))
        meta = {
            "breaks_property": a.pid,
            "needs_to_manifest": a.needs or (open(notes).read()[:1500] if os.path.exists(notes) else ""),
            "source": "independent sub-agent given only the property text and a scratch worktree",
            "what_i_ran": rec["ran"],
            "base_commit": rec["base_commit"],
            "caught_by_quick_checks": rec["checks_quick"],
        }
        json.dump(meta, open(os.path.join(dst, "meta.json"), "w"), indent=1)
    print(json.dumps(rec, indent=1))


if __name__ == "__main__":
    main()
