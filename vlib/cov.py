"""Optional line-coverage recorder for the library under test (VERIF_COV=<dir>), used only by tools/cov_report.py to find
library lines that no enumerated case reaches (blind spots of an alphabet). Never part of a verdict."""
import json
import os
import sys

_HITS = set()
_SRC = None


def start(src):
    global _SRC
    if not os.environ.get("VERIF_COV") or _SRC is not None:
        return
    _SRC = os.path.abspath(src) + os.sep
    mon = sys.monitoring
    tool = 3
    mon.use_tool_id(tool, "verifcov")

    def on_line(code, ln):
        fn = code.co_filename
        if fn.startswith(_SRC):
            _HITS.add((fn[len(_SRC):], ln))
        return mon.DISABLE

    mon.register_callback(tool, mon.events.LINE, on_line)
    mon.set_events(tool, mon.events.LINE)


def dump(tag):
    d = os.environ.get("VERIF_COV")
    if not d or _SRC is None:
        return
    os.makedirs(d, exist_ok=True)
    p = os.path.join(d, f"{tag}.{os.getpid()}.json")
    tmp = p + ".tmp"
    json.dump(sorted(_HITS), open(tmp, "w"))
    os.replace(tmp, p)
