"""Deviation-bounded enumeration of product alphabets (simplest cells first)."""
import itertools as it


def cells(dims, max_dev=None):
    """dims: dict name -> list of values, the FIRST being the default. Yields (cell dict, n_deviations) for every
    cell with at most max_dev non-default coordinates (None = full product), fewest deviations first."""
    names = list(dims)
    n = len(names)
    max_dev = n if max_dev is None else min(max_dev, n)
    for dev in range(max_dev + 1):
        for which in it.combinations(range(n), dev):
            alts = [range(1, len(dims[names[i]])) for i in which]
            for choice in it.product(*alts):
                cell = {nm: dims[nm][0] for nm in names}
                for i, c in zip(which, choice):
                    cell[names[i]] = dims[names[i]][c]
                yield cell, dev


def count(dims, max_dev=None):
    return sum(1 for _ in cells(dims, max_dev))


def product(dims):
    names = list(dims)
    for vals in it.product(*[dims[nm] for nm in names]):
        yield dict(zip(names, vals))


def dedupe(cases, keyf):
    seen, out = set(), []
    for c in cases:
        k = keyf(c)
        if k not in seen:
            seen.add(k)
            out.append(c)
    return out


def recentre(dims, centre):
    """same alphabet, with the values named in `centre` moved to the front (so they become the default cell)"""
    out = {}
    for nm, vals in dims.items():
        if nm in centre:
            c = centre[nm]
            assert c in vals, (nm, c)
            out[nm] = [c] + [v for v in vals if v != c]
        else:
            out[nm] = list(vals)
    return out
