"""Harness-side helpers that touch ginjax (imported only inside worker processes, after bind_src)."""
import itertools as it
import numpy as np


def lib():
    import ginjax.geometric as geom
    import ginjax.ml as ml
    import ginjax.models as models

    return geom, ml, models


def A(x):
    return np.asarray(x)


def ident(shape, offset=0):
    """identifier array: entries offset+1 .. offset+n (float32, exact)"""
    n = int(np.prod(shape)) if len(shape) else 1
    return (np.arange(1, n + 1, dtype=np.float32) + offset).reshape(shape)


def flags_all(D):
    return list(it.product([True, False], repeat=D))


def perms(seq):
    return [list(p) for p in it.permutations(seq)]


def make_mi(blocks, D, flags=True, order=None):
    """MultiImage from dict (k,p)->np array, inserted in `order` (list of keys)."""
    import jax.numpy as jnp
    import ginjax.geometric as geom

    order = list(blocks.keys()) if order is None else [tuple(k) for k in order]
    return geom.MultiImage({kp: jnp.asarray(blocks[kp]) for kp in order}, D, flags)


def mi_blocks(mi):
    return {kp: np.asarray(v) for kp, v in mi.items()}


def rng_for(seed, *parts):
    import hashlib

    h = hashlib.sha256(("%d|" % seed + "|".join(str(p) for p in parts)).encode()).digest()
    return np.random.default_rng(int.from_bytes(h[:8], "little"))


def viol(fp, msg, **detail):
    return {"fp": fp, "msg": msg, "detail": detail}
