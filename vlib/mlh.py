"""Harness helpers for the layer / model checks (import ginjax lazily; used inside worker processes only)."""
import itertools as it

import numpy as np

from vlib.ref import group as G
from vlib.ref.action import ref_action, perm_axes
from vlib.ref.conv import ref_conv_contract

_BANKS = {}


def bank(D, name):
    """Filter banks by name, memoised per process. Returns (MultiImage bank, numpy dict, stabiliser in B_D)."""
    key = (D, name)
    if key in _BANKS:
        return _BANKS[key]
    import ginjax.geometric as geom

    grp_name, M, scale = name.split("_")
    M = int(M[1:])
    ops = {"B": G.Bd(D), "C2": G.named_groups(D)["C2^d"], "SO": G.named_groups(D)["SO"]}[grp_name]
    ks = list(range(5)) if D == 2 else list(range(3))
    mi = geom.get_invariant_filters([M], ks, [0, 1], D, [np.array(g) for g in ops], scale)
    nb = {kp: np.asarray(v) for kp, v in mi.items()}
    stab = stabiliser(nb, D)
    _BANKS[key] = (mi, nb, stab)
    return _BANKS[key]


def stabiliser(bank_np, D):
    """all g in B_D fixing every filter of the bank (exact: entries are only permuted / sign flipped)"""
    out = []
    for g in G.Bd(D):
        ok = True
        for (k, p), blk in bank_np.items():
            if not np.array_equal(ref_action(blk, p, g, D, lead=1), blk):
                ok = False
                break
        if ok:
            out.append(g)
    return out


def options_stabiliser(grp, *per_axis):
    """restrict to the g under which every per-axis option tuple is unchanged"""
    out = []
    for g in grp:
        if all((not isinstance(o, tuple)) or perm_axes(o, g) == o for o in per_axis):
            out.append(g)
    return out


def sig_tuple(sig):
    import ginjax.geometric as geom

    return geom.Signature(tuple((tuple(kp), c) for kp, c in sig))


def make_input(sig, D, sp, rng, integer=True, order=None):
    """numpy blocks (c, spatial, tensor) for a signature list [((k,p),c),...]"""
    blocks = {}
    for kp, c in sig:
        kp = tuple(kp)
        shape = (c,) + tuple(sp) + (D,) * kp[0]
        blocks[kp] = rng.integers(-2, 3, size=shape).astype(np.float32) if integer else rng.normal(size=shape).astype(np.float32)
    return blocks


_REGISTRY = []  # (MultiImage handed to the library, its numpy source blocks, key order, flags) of the current case


def to_mi(blocks, D, flags, order=None):
    import jax.numpy as jnp
    import ginjax.geometric as geom

    order = list(blocks) if order is None else order
    mi = geom.MultiImage({kp: jnp.asarray(blocks[kp]) for kp in order}, D, flags)
    if len(_REGISTRY) < 20000:
        _REGISTRY.append((mi, {kp: blocks[kp] for kp in order}, list(order), tuple(flags) if isinstance(flags, (tuple, list)) else flags))
    return mi


def mutated_inputs(clear=True):
    """Which of the input objects built by to_mi in this case no longer hold what they were built from?

    The equivariance identities f(g.x) == g.f(x) are evaluated by the harness from the numpy source of x; a user holds
    the OBJECT x, calls f(x) and then forms g.x from that same object. If the call changed the object in place the
    identity fails for that user although each call on a fresh object is right. Returns a list of short descriptions."""
    out = []
    for mi, src, order, flags in _REGISTRY:
        try:
            keys = [tuple(k) for k in mi.keys()]
            if keys != [tuple(k) for k in order]:
                out.append(f"types/order {keys} != {order}")
                continue
            for kp in order:
                now = np.asarray(mi[kp])
                if now.shape != np.asarray(src[kp]).shape or not np.array_equal(now, np.asarray(src[kp]).astype(now.dtype)):
                    out.append(f"block {tuple(kp)} changed (shape {now.shape} vs {np.asarray(src[kp]).shape})")
                    break
        except Exception as e:  # a deleted/donated buffer is a change as well
            out.append(f"unreadable after the call: {type(e).__name__}")
        if len(out) >= 3:
            break
    if clear:
        _REGISTRY.clear()
    return out


def act_blocks(blocks, g, D, lead=1):
    return {kp: ref_action(b, kp[1], g, D, lead=lead) for kp, b in blocks.items()}


def np_blocks(mi):
    return {kp: np.asarray(b) for kp, b in mi.items()}


def set_convcontract_params(layer, rng, integer=True):
    """replace weights / biases of a ConvContract by chosen values (integers or dyadic rationals: exact in float32)"""
    import equinox as eqx
    import jax.numpy as jnp

    new_w = {}
    for s, d in layer.weights.items():
        new_w[s] = {}
        for t, w in d.items():
            new_w[s][t] = jnp.asarray(rng.integers(-2, 3, size=w.shape).astype(np.float32) if integer else rng.normal(size=w.shape).astype(np.float32))
    new_b = {t: jnp.asarray((rng.integers(-4, 5, size=b.shape) * 0.25).astype(np.float32) if integer else rng.normal(size=b.shape).astype(np.float32)) for t, b in layer.bias.items()}
    layer = eqx.tree_at(lambda l: l.weights, layer, new_w)
    if new_b:
        layer = eqx.tree_at(lambda l: l.bias, layer, new_b)
    return layer


def ref_convcontract(layer, x_blocks, x_order, D, flags, bank_np, with_bias=True):
    """Reference evaluation of the defining sum of ConvContract from its public fields (weights, bias, options).

    Returns (dict target type -> array, in target order restricted to reachable types)."""
    W = {s: {t: np.asarray(w) for t, w in d.items()} for s, d in layer.weights.items()}
    Bz = {t: np.asarray(b) for t, b in layer.bias.items()}
    stride, pad, lhs, rhs = layer.stride, layer.padding, layer.lhs_dilation, layer.rhs_dilation
    integer = all(np.all(b == np.round(b)) for b in x_blocks.values()) and all(np.all(w == np.round(w)) for d in W.values() for w in d.values()) and all(np.all(f == np.round(f)) for f in bank_np.values())
    core = {}
    for t, _oc in layer.target_keys:
        t = tuple(t)
        acc = None
        for s in x_order:
            if s not in W or t not in W[s]:
                continue
            fk = (s[0] + t[0], (s[1] + t[1]) % 2)
            F = np.einsum("oif,f...->oi...", W[s][t].astype(np.float64), bank_np[fk].astype(np.float64))
            xs = x_blocks[s][None]
            if integer:
                F = np.round(F).astype(np.int64)
                xs = np.round(xs).astype(np.int64)
            r = ref_conv_contract(D, xs, F, flags, stride, pad, lhs, rhs)[0]
            acc = r if acc is None else acc + r
        if acc is not None:
            core[t] = acc
    if not with_bias:
        return core, integer
    mode = layer.use_bias
    if isinstance(mode, bool):
        mode = "auto" if mode else False
    out = {}
    for t, val in core.items():
        val = val.astype(np.float64)
        if mode in ("auto", "scalar") and t == (0, 0):
            out[t] = val + Bz[t]
        elif mode == "mean" or (mode == "auto" and t != (0, 0)):
            mean = val.mean(axis=tuple(range(1, 1 + D)), keepdims=True) if val.size else np.zeros(val.shape[:1] + (1,) * D + val.shape[1 + D :])
            out[t] = val + mean * Bz[t]
        else:
            out[t] = val
    return out, integer


def relerr(a, b):
    a = np.asarray(a, dtype=np.float64)
    b = np.asarray(b, dtype=np.float64)
    if a.shape != b.shape:
        return np.inf
    if a.size == 0:
        return 0.0
    return float(np.max(np.abs(a - b)) / (1.0 + np.max(np.abs(b))))


def perturb_model(model, rng, sigma=0.2, skip=("invariant_filters",)):
    """add N(0, sigma^2) noise to every inexact array leaf except the filter banks"""
    import equinox as eqx
    import jax
    import jax.numpy as jnp

    leaves, treedef = jax.tree_util.tree_flatten_with_path(model)
    new = []
    for path, leaf in leaves:
        ps = jax.tree_util.keystr(path)
        if eqx.is_inexact_array(leaf) and not any(s in ps for s in skip):
            new.append(leaf + jnp.asarray(sigma * rng.normal(size=leaf.shape).astype(np.float32)))
        else:
            new.append(leaf)
    return jax.tree_util.tree_unflatten(treedef, new)


def filter_leaves(model):
    """[(path string, numpy array)] of every invariant filter bank leaf in the model"""
    import jax

    leaves, _ = jax.tree_util.tree_flatten_with_path(model)
    return [(jax.tree_util.keystr(p), np.asarray(l)) for p, l in leaves if "invariant_filters" in jax.tree_util.keystr(p) and hasattr(l, "shape")]


def shifts(sp, flags, D):
    axes = [i for i in range(D) if flags[i]]
    for sh in it.product(*[range(sp[i]) for i in axes]):
        if any(sh):
            full = [0] * D
            for i, s_ in zip(axes, sh):
                full[i] = s_
            yield tuple(full)


# ----------------------------------------------------------------------------- lock-step trace monitor
class Monitor:
    """Patch __call__ of the layer classes (in this process only) and record every intermediate MultiImage."""

    def __init__(self):
        import ginjax.ml as ml
        import ginjax.models as models

        self.classes = [ml.ConvContract, ml.GroupNorm, ml.VectorNeuronNonlinear, ml.MaxNormPool, models.ConvBlock]
        self.trace = []
        self.pool_inputs = []  # inputs of every MaxNormPool call (for the uniqueness premise of max pooling)
        self._orig = {}

    def __enter__(self):
        for cls in self.classes:
            orig = cls.__call__
            self._orig[cls] = orig

            def wrapped(self_, *a, _orig=orig, _name=cls.__name__, **kw):
                out = _orig(self_, *a, **kw)
                mi = out[0] if isinstance(out, tuple) else out
                self.trace.append((_name, mi))
                if _name == "MaxNormPool" and a:
                    self.pool_inputs.append((a[0], getattr(self_, "patch_len", 2)))
                return out

            cls.__call__ = wrapped
        return self

    def __exit__(self, *exc):
        for cls, orig in self._orig.items():
            cls.__call__ = orig
        return False

    def take(self):
        t, self.trace = self.trace, []
        return t

    def take_pool_margin(self):
        """smallest relative gap between the two largest pixel norms over all patches of all max-pool inputs seen
        (1.0 if there was no max pool; patches whose largest norm is exactly 0 are harmless and skipped)"""
        worst = 1.0
        for mi, p in self.pool_inputs:
            D = mi.D
            for (k, _), b in mi.items():
                b = np.asarray(b, dtype=np.float64)
                c, sp = b.shape[0], b.shape[1 : 1 + D]
                n = np.sqrt((b**2).reshape((c,) + sp + (-1,)).sum(-1))
                sh = (c,)
                for s_ in sp:
                    sh += (s_ // p, p)
                n = n.reshape(sh)
                n = np.moveaxis(n, [2 + 2 * i for i in range(D)], list(range(-D, 0))).reshape((c, -1, p**D))
                top = np.sort(n, axis=-1)[..., -2:]
                ok = top[..., 1] > 0
                if np.any(ok):
                    worst = min(worst, float(np.min((top[..., 1][ok] - top[..., 0][ok]) / top[..., 1][ok])))
        self.pool_inputs = []
        return worst


def equivariance_defect(apply, xb, grp, D, flags, lead=1, shifts_list=()):
    """worst relative defect of apply(g.x) vs g.apply(x) over grp (and of shift-commutation over shifts_list).

    apply(blocks, flags) -> blocks. Returns (defect, witness, block type, moved, nonzero)."""
    base = apply(xb, flags)
    worst = (0.0, None, None)
    moved = nonzero = False
    for g in grp:
        got = apply(act_blocks(xb, g, D, lead=lead), perm_axes(flags, g))
        exp = act_blocks(base, g, D, lead=lead)
        for t in exp:
            e = relerr(got[t], exp[t]) if t in got else np.inf
            if e > worst[0]:
                worst = (e, g, t)
            if exp[t].shape != base[t].shape or not np.array_equal(exp[t], base[t]):
                moved = True
            nonzero = nonzero or bool(np.any(base[t] != 0))
    for sh_in, sh_out in shifts_list:
        got = apply({kp: np.roll(b, sh_in, axis=tuple(range(lead, lead + D))) for kp, b in xb.items()}, flags)
        for t in base:
            e = relerr(got[t], np.roll(base[t], sh_out, axis=tuple(range(lead, lead + D))))
            if e > worst[0]:
                worst = (e, ("shift", sh_in), t)
    return worst, moved, nonzero


def model_equivariance(model, xb, in_order, grp, D, flags, monitor=True, layer_tol=2e-3):
    """worst relative defect of model(g.x) vs g.model(x) over grp, at the output and (lock step) at every layer.
    Returns dict(e, where, g, t, moved, nonzero)."""
    def forward(b, fl):
        if monitor:
            with Monitor() as mon:
                y = model(to_mi(b, D, fl, order=in_order))
                y = y[0] if isinstance(y, tuple) else y
                tr = mon.take()
                margins.append(mon.take_pool_margin())
            return np_blocks(y), [(n, np_blocks(m)) for n, m in tr]
        y = model(to_mi(b, D, fl, order=in_order))
        y = y[0] if isinstance(y, tuple) else y
        return np_blocks(y), []

    margins = []
    y0, tr0 = forward(xb, flags)
    base_margin = margins[0] if margins else 1.0
    # e/g/t: worst END-TO-END defect (decides); where: first intermediate layer whose defect exceeds layer_tol (naming only)
    w = {"e": 0.0, "where": "output", "g": None, "t": None, "moved": False, "nonzero": False, "layer_e": 0.0, "pool_margin": base_margin}

    def upd(e, where, g, t):
        if where == "output":
            if e > w["e"]:
                w.update(e=e, g=g, t=t)
        elif e > layer_tol and (w["where"] == "output" or int(where[4:].split(":")[0]) < int(w["where"][4:].split(":")[0])):
            w.update(where=where, layer_e=e)

    for g in grp:
        yg, trg = forward(act_blocks(xb, g, D), perm_axes(flags, g))
        exp = act_blocks(y0, g, D)
        for t in exp:
            upd(relerr(yg[t], exp[t]) if t in yg else np.inf, "output", g, t)
            if not np.array_equal(exp[t], y0[t]):
                w["moved"] = True
            w["nonzero"] = w["nonzero"] or bool(np.any(y0[t] != 0))
        if len(trg) == len(tr0):
            for i, ((n0, b0), (n1, b1)) in enumerate(zip(tr0, trg)):
                e0 = act_blocks(b0, g, D)
                for t in e0:
                    upd(relerr(b1[t], e0[t]) if t in b1 else np.inf, f"step{i}:{n0}", g, t)
    return w
