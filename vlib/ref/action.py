"""Reference model: the defining formula of the group action on geometric images (numpy, no ginjax).

(g.A)(x) = det(g)^p * g^{(x)k} A(g^-1 (x - c') + c),  c = (n-1)/2, n' = |g| n, c' = (n'-1)/2
Index arithmetic is done on doubled coordinates so everything stays in Z.
"""
import numpy as np


def rotated_dims(sp, g):
    return tuple(int(v) for v in np.abs(np.asarray(g)) @ np.array(sp))


def perm_axes(t, g):
    """Transport a per-axis tuple with its axes: t'[i] = t[j] where |g|[i,j] = 1."""
    absg = np.abs(np.asarray(g))
    D = len(t)
    return tuple(t[int(np.argmax(absg[i]))] for i in range(D))


def source_pixels(sp, g):
    """For every pixel x' of the rotated grid (row-major), the source pixel g^-1(x'-c')+c."""
    g = np.asarray(g, dtype=np.int64)
    D = len(sp)
    newsp = rotated_dims(sp, g)
    c2 = np.array(sp) - 1
    c2n = np.array(newsp) - 1
    grids = np.stack(np.meshgrid(*[np.arange(n) for n in newsp], indexing="ij"), -1).reshape(-1, D)
    src2 = (2 * grids - c2n) @ g + c2  # row vector times g == g^T v == g^-1 v
    assert np.all(src2 % 2 == 0)
    src = src2 // 2
    assert np.all(src >= 0) and np.all(src < np.array(sp))
    return newsp, src


def ref_action(data, parity, g, D, lead=0):
    """data: (lead..., spatial, tensor). Returns g.data as numpy array of the same dtype."""
    data = np.asarray(data)
    g = np.asarray(g, dtype=np.int64)
    sp = data.shape[lead : lead + D]
    k = data.ndim - D - lead
    assert data.shape[lead + D :] == (D,) * k
    newsp, src = source_pixels(sp, g)
    idx = tuple(src[:, i] for i in range(D))
    gathered = data[(slice(None),) * lead + idx]
    gathered = gathered.reshape(data.shape[:lead] + newsp + (D,) * k)
    for a in range(k):
        ax = lead + D + a
        gathered = np.moveaxis(np.tensordot(g.astype(data.dtype), gathered, axes=([1], [ax])), 0, ax)
    d = int(round(float(np.linalg.det(g.astype(float)))))
    return gathered * (d ** (parity % 2))


def ref_action_blocks(blocks, g, D, lead):
    """blocks: dict (k,p)->array with `lead` leading axes."""
    return {kp: ref_action(v, kp[1], g, D, lead) for kp, v in blocks.items()}


def ref_shift(data, shift, D, lead=0):
    """Cyclic translation by `shift` (tuple of D ints) of the spatial axes."""
    return np.roll(np.asarray(data), shift, axis=tuple(range(lead, lead + D)))
