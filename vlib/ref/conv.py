"""Reference model: the direct-sum definition of the tensor convolution (numpy int64/float64, no ginjax).

out[b,o,i] = sum_c sum_a P[b,c, i*stride + a*dilation] (x) F[o,c,a]
P = image wrapped on toroidal axes (TORUS padding only), zero-interleaved by lhs_dilation, zero padded.
Image tensor indices first, filter tensor indices after.
"""
import itertools as it
import numpy as np


def resolve_padding(D, M, is_torus, padding, rhs_dil):
    """returns (wrap widths per axis, literal zero padding per axis)"""
    if padding is None:
        padding = "TORUS" if any(is_torus) else "SAME"
    half = [((m - 1) // 2) * r for m, r in zip(M, rhs_dil)]
    if padding == "TORUS":
        wrap = [h if t else 0 for h, t in zip(half, is_torus)]
        lit = [(0, 0) if t else (h, h) for h, t in zip(half, is_torus)]
    elif padding == "VALID":
        wrap, lit = [0] * D, [(0, 0)] * D
    elif padding == "SAME":
        wrap, lit = [0] * D, [(h, h) for h in half]
    elif isinstance(padding, int):
        wrap, lit = [0] * D, [(padding, padding)] * D
    else:
        wrap, lit = [0] * D, [tuple(p) for p in padding]
    return wrap, lit


def out_extent(n, lo, hi, m, r, s, l=1):
    n_dil = (n - 1) * l + 1 if n > 0 else 0
    n_pad = n_dil + lo + hi
    return max(0, (n_pad - (m - 1) * r - 1) // s + 1)


def ref_conv(D, img, flt, is_torus, stride=1, padding=None, lhs_dil=None, rhs_dil=1):
    """img (b,c,spatial,tensor k), flt (o,c,spatial,tensor k'); integer or float arrays."""
    img = np.asarray(img)
    flt = np.asarray(flt)
    dt = np.int64 if (np.issubdtype(img.dtype, np.integer) and np.issubdtype(flt.dtype, np.integer)) else np.float64
    img = img.astype(dt)
    flt = flt.astype(dt)
    b, c = img.shape[:2]
    o = flt.shape[0]
    assert flt.shape[1] == c
    sp = img.shape[2 : 2 + D]
    k = img.ndim - 2 - D
    M = flt.shape[2 : 2 + D]
    kf = flt.ndim - 2 - D
    if isinstance(is_torus, bool):
        is_torus = (is_torus,) * D
    if not isinstance(stride, tuple):
        stride = (stride,) * D
    if not isinstance(rhs_dil, tuple):
        rhs_dil = (rhs_dil,) * D
    wrap, lit = resolve_padding(D, M, is_torus, padding, rhs_dil)
    P = img
    if any(wrap):
        P = np.pad(P, [(0, 0), (0, 0)] + [(w, w) for w in wrap] + [(0, 0)] * k, mode="wrap")
    if lhs_dil is not None:
        newsp = tuple((n - 1) * l + 1 for n, l in zip(P.shape[2 : 2 + D], lhs_dil))
        Q = np.zeros(P.shape[:2] + newsp + P.shape[2 + D :], dtype=dt)
        sl = (slice(None), slice(None)) + tuple(slice(None, None, l) for l in lhs_dil)
        Q[sl] = P
        P = Q
    P = np.pad(P, [(0, 0), (0, 0)] + lit + [(0, 0)] * k)
    psp = P.shape[2 : 2 + D]
    osp = tuple(max(0, (n - (m - 1) * r - 1) // s + 1) for n, m, r, s in zip(psp, M, rhs_dil, stride))
    out = np.zeros((b, o) + osp + (D,) * (k + kf), dtype=dt)
    if 0 in osp:
        return out
    for a in it.product(*[range(m) for m in M]):
        sl = (slice(None), slice(None)) + tuple(
            slice(ai * r, ai * r + (on - 1) * s + 1, s) for ai, r, on, s in zip(a, rhs_dil, osp, stride)
        )
        patch = P[sl]
        f = flt[(slice(None), slice(None)) + a]
        pa = patch.reshape(b, c, -1, D**k)
        fa = f.reshape(o, c, D**kf)
        out += np.einsum("bcxk,ocf->boxkf", pa, fa).reshape(out.shape)
    return out


def ref_contract(data, pairs, idx_shift):
    """Kronecker contraction of tensor index pairs (indices relative to idx_shift)."""
    data = np.asarray(data)
    nd = data.ndim
    letters = [chr(ord("a") + i) for i in range(nd)]
    for n, (i, j) in enumerate(pairs):
        letters[j + idx_shift] = letters[i + idx_shift]
    ins = "".join(letters)
    outs = "".join(sorted(ch for ch in set(ins) if ins.count(ch) == 1))
    # keep original order of the surviving axes
    outs = "".join(ch for ch in ins if ins.count(ch) == 1)
    return np.einsum(ins + "->" + outs, data)


def ref_conv_contract(D, img, flt, is_torus, stride=1, padding=None, lhs_dil=None, rhs_dil=1):
    """convolution followed by contraction of image index i with filter index i (leading filter indices)."""
    k = np.asarray(img).ndim - 2 - D
    full = ref_conv(D, img, flt, is_torus, stride, padding, lhs_dil, rhs_dil)
    pairs = tuple((i, k + i) for i in range(k))
    return ref_contract(full, pairs, 2 + D)
