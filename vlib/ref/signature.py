"""Reference model: type/shape propagation through the library's architectures (no import of ginjax).

A ConvContract with input types S (those present in the data), target signature T (ordered) and a filter bank with
type set F maps to  [t in T : exists s in S with (k_s+k_t, (p_s+p_t)%2) in F]  in target order.
Normalisation (k<=1 only), nonlinearities and pooling keep the type set. Residual sums need equal type sets; the
U-Net skip concatenation needs the up-sampled branch to hold every type of the skipped branch (else the channel
counts no longer match the next block's weights).
"""


def reach(S, targets, bank_types):
    S = list(S)
    return [t for t in targets if any(((s[0] + t[0]), (s[1] + t[1]) % 2) in bank_types for s in S)]


def union_types(in_sig, out_sig):
    seen = []
    for kp, _ in list(in_sig) + list(out_sig):
        if tuple(kp) not in seen:
            seen.append(tuple(kp))
    return seen


def propagate(cls, in_sig, out_sig, bank_types, up_bank_types=None, norm=False, size=1, num_conv=1, preact=False):
    """Returns ("defined", out_types_in_order) | ("unsupported", why) | ("unstable", why)."""
    in_types = [tuple(kp) for kp, _ in in_sig]
    out_types = [tuple(kp) for kp, _ in out_sig]
    if cls in ("ConvBlock", "ConvBlockPre"):
        if norm and any(t[0] > 1 for t in out_types):
            return ("unsupported", "group norm on k>1")
        if cls == "ConvBlockPre" and set(in_types) != set(out_types):
            return ("unstable", "preactivation block needs input types == output types")
        r = reach(in_types, out_types, bank_types)
        return ("defined", r) if r else ("unstable", "no target reachable")
    mid = union_types(in_sig, out_sig)
    if norm and any(t[0] > 1 for t in mid):
        return ("unsupported", "group norm on k>1")
    S = reach(in_types, mid, bank_types)
    if not S:
        return ("unstable", "no mid type reachable from the input")
    if cls in ("ResNet", "DilResNet"):
        S = reach(S, mid, bank_types)  # second encoder block
        per_block = num_conv if cls == "ResNet" else 7
        for _ in range(size):
            S2 = S
            for _ in range(per_block):
                S2 = reach(S2, mid, bank_types)
                if not S2:
                    return ("unstable", "type set dies inside a block")
            if set(S2) != set(S):
                return ("unstable", f"residual sum of different type sets {S2} vs {S}")
            S = S2
        S = reach(S, mid, bank_types)  # first decoder block
        out = reach(S, out_types, bank_types)
        return ("defined", out) if out else ("unstable", "no output type reachable")
    if cls == "UNet":
        for _ in range(num_conv - 1):
            S = reach(S, mid, bank_types)
        stack = []
        for _ in range(size):
            stack.append(S)
            for _ in range(num_conv):
                S = reach(S, mid, bank_types)
                if not S:
                    return ("unstable", "type set dies on the way down")
        for _ in range(size):
            up = reach(S, mid, up_bank_types)
            skip = stack.pop()
            if set(up) != set(skip):
                return ("unstable", f"skip concat of different type sets {up} vs {skip}")
            S = up
            for _ in range(num_conv):
                S = reach(S, mid, bank_types)
        out = reach(S, out_types, bank_types)
        return ("defined", out) if out else ("unstable", "no output type reachable")
    raise ValueError(cls)


def n_convcontract_calls(cls, size, num_conv):
    if cls in ("ConvBlock", "ConvBlockPre"):
        return 1
    if cls == "ResNet":
        return 2 + size * num_conv + 2
    if cls == "DilResNet":
        return 2 + size * 7 + 2
    if cls == "UNet":
        return num_conv + size * num_conv + size * (1 + num_conv) + 1
    raise ValueError(cls)
