"""Shared runner: enumerate the cases of a check exhaustively, execute every one on the real code
(in a pool of worker processes), aggregate, write evidence, print VIOLATION / KNOWN-FINDING lines.

A check module (checks/Cxx.py) provides
    ID, LEVEL ("exploration" | "model_checking"), DESIGN_REF, RULE, ASSUMPTIONS (list[str])
    cases(tier, seed) -> list[dict]      JSON-able, deterministic, simplest first; optional key "grp"
    run_case(case, seed) -> dict          see `norm_result`
    bounds(tier) -> dict                  the bounds actually used (for the evidence)
"""
import contextlib
import hashlib
import io
import importlib
import json
import os
import re
import sys
import time
import traceback

VERIF = os.path.dirname(os.path.dirname(os.path.abspath(__file__)))
DEFAULT_SRC = "/repo/src"


# ----------------------------------------------------------------------------- environment
def setup_env():
    """Deterministic, single-threaded-per-process numerical environment. Must run before jax import."""
    os.environ.setdefault("JAX_PLATFORMS", "cpu")
    os.environ["XLA_FLAGS"] = (
        os.environ.get("XLA_FLAGS", "")
        + " --xla_cpu_multi_thread_eigen=false intra_op_parallelism_threads=1"
        + " --xla_force_host_platform_device_count=1"
    )
    for v in ("OMP_NUM_THREADS", "OPENBLAS_NUM_THREADS", "MKL_NUM_THREADS"):
        os.environ[v] = "1"
    os.environ.setdefault("TF_CPP_MIN_LOG_LEVEL", "3")
    os.environ["WANDB_MODE"] = "disabled"
    os.environ.setdefault("MPLBACKEND", "Agg")
    os.environ["GINJAX_VERIF"] = "1"  # hook guard (no source hooks exist; kept for the interface)


def bind_src(src):
    """Make `import ginjax` resolve to <src>/ginjax and fail loudly otherwise."""
    src = os.path.abspath(src)
    if src in sys.path:
        sys.path.remove(src)
    sys.path.insert(0, src)
    if VERIF not in sys.path:
        sys.path.insert(1, VERIF)
    import warnings

    warnings.filterwarnings("ignore", message="Error reading persistent compilation cache")
    warnings.filterwarnings("ignore", message="Error writing persistent compilation cache")
    warnings.filterwarnings("ignore", message="A JAX array is being set as static")
    warnings.filterwarnings("ignore", message="When `eqx.nn.BatchNorm")
    import jax

    cache = os.environ.get("VERIF_XLA_CACHE", os.path.join(VERIF, ".cache", "xla"))
    if cache != "off":
        try:
            os.makedirs(cache, exist_ok=True)
            jax.config.update("jax_compilation_cache_dir", cache)
            jax.config.update("jax_persistent_cache_min_compile_time_secs", 0.0)
            jax.config.update("jax_persistent_cache_min_entry_size_bytes", -1)
        except Exception:
            pass
    # import order matters (ginjax.models <-> ginjax.ml circular import)
    import ginjax.geometric  # noqa
    import ginjax.ml  # noqa
    import ginjax.models  # noqa
    import ginjax

    here = os.path.abspath(ginjax.__file__)
    if not here.startswith(src + os.sep):
        raise SystemExit(f"ginjax imported from {here}, not from {src}: refusing to run")
    return here


# ----------------------------------------------------------------------------- results
def norm_result(case, res):
    """Normalise what run_case returned.

    status: ok | violation | disabled | rejected | unconfirmed
    nt: bool non-trivial by the check's rule; key: distinctness key; outcome: observed outcome class
    evals: number of sub-evaluations; violations: list of {fp, msg, detail}
    states/transitions/traces: model-checking counters
    """
    out = {
        "status": "ok",
        "nt": False,
        "key": None,
        "outcome": "ok",
        "evals": 1,
        "violations": [],
        "states": 0,
        "transitions": 0,
        "traces": 0,
        "note": None,
        "nt_keys": None,
        "metric": None,
    }
    out.update(res or {})
    if out["key"] is None:
        out["key"] = json.dumps(case, sort_keys=True, default=str)
    if out["violations"] and out["status"] == "ok":
        out["status"] = "violation"
    return out


def post_case(mod, case, res):
    """post-condition shared by every case of the equivariance checks: the input objects handed to the library still
    hold what they were built from (see vlib.mlh.mutated_inputs)."""
    if "vlib.mlh" in sys.modules:
        muts = sys.modules["vlib.mlh"].mutated_inputs()
        if muts and getattr(mod, "INPUTS_MUST_BE_UNCHANGED", False) and isinstance(res, dict) and res.get("status", "ok") in ("ok", "violation"):
            res.setdefault("violations", []).append(
                {
                    "fp": f"{mod.ID}/input-modified-in-place",
                    "msg": "a call changed the input object it was given, so f(g.x) formed from that object after f(x) no longer equals g.f(x): " + "; ".join(muts),
                    "detail": {"case": case},
                }
            )
    return res


def _worker_init(src, check_name):
    setup_env()
    from vlib import cov

    cov.start(src)
    bind_src(src)
    global _MOD
    _MOD = importlib.import_module(f"checks.{check_name}")


def _worker_run(args):
    idx_cases, seed = args
    out = []
    for idx, case in idx_cases:
        t0 = time.time()
        try:
            with contextlib.redirect_stdout(io.StringIO()):  # the library prints warnings at trace time
                res = _MOD.run_case(case, seed)
        except Exception as e:  # a crash of the harness or the library on an enabled cell
            res = {
                "status": "violation",
                "violations": [
                    {
                        "fp": f"{_MOD.ID}/exception/{type(e).__name__}",
                        "msg": f"unexpected {type(e).__name__}: {str(e)[:300]}",
                        "detail": {"traceback": traceback.format_exc()[-1500:]},
                    }
                ],
            }
        res = post_case(_MOD, case, res)
        r = norm_result(case, res)
        r["idx"] = idx
        r["t"] = time.time() - t0
        out.append(r)
    from vlib import cov

    cov.dump(_MOD.ID)
    return out


def make_chunks(cases, jobs, per_chunk=None):
    """Keep cases of one group together (shared compilations), balance chunks greedily."""
    groups = {}
    for i, c in enumerate(cases):
        groups.setdefault(c.get("grp", i), []).append((i, c))
    glist = list(groups.values())
    total = sum(c.get("cost", 1) for c in cases)
    target = per_chunk or max(1.0, total / (jobs * 6))
    cost = lambda ch: sum(c.get("cost", 1) for _, c in ch)
    chunks = []
    for g in glist:
        # split very large groups
        cur = []
        for ic in g:
            cur.append(ic)
            if cost(cur) >= target:
                chunks.append(cur)
                cur = []
        if cur:
            chunks.append(cur)
    # merge tiny chunks
    merged, cur = [], []
    for ch in chunks:
        cur.extend(ch)
        if cost(cur) >= target:
            merged.append(cur)
            cur = []
    if cur:
        merged.append(cur)
    # heaviest chunks first (longest-processing-time scheduling); results are re-indexed anyway
    merged.sort(key=lambda ch: -sum(c.get("cost", 1) for _, c in ch))
    return merged


# ----------------------------------------------------------------------------- known findings
def load_findings():
    path = os.path.join(VERIF, "known_findings.txt")
    known, fixed = [], []
    if os.path.exists(path):
        for line in open(path):
            line = line.strip()
            if not line or line.startswith("#"):
                continue
            m = re.match(r"known: property=(\S+) fingerprint=(\S+) (.*)", line)
            if m:
                known.append({"property": m.group(1), "fp": m.group(2), "what": m.group(3)})
                continue
            m = re.match(r"fixed: property=(\S+) (\S+) (.*)", line)
            if m:
                fixed.append({"property": m.group(1), "commit": m.group(2), "what": m.group(3)})
    return known, fixed


# ----------------------------------------------------------------------------- main
def run_check(check_name, tier, seed, src, jobs, replay=None, limit=None, quiet=False):
    t0 = time.time()
    setup_env()
    sys.path.insert(0, VERIF)
    mod = importlib.import_module(f"checks.{check_name}")
    pid = mod.ID

    if replay:
        bind_src(src)
        rec = json.load(open(replay))
        case = rec["case"]
        res = norm_result(case, post_case(mod, case, mod.run_case(case, rec.get("seed", seed))))
        print(json.dumps({"case": case, "status": res["status"], "violations": res["violations"]}, indent=1, default=str))
        if res["violations"]:
            print(f"VIOLATION property={pid} replay={replay}")
            return 1
        print(f"replay: property={pid} holds on this case")
        return 0

    cases = mod.cases(tier, seed)
    if limit:
        cases = cases[:limit]
    n_cases = len(cases)
    jobs = max(1, min(jobs, n_cases))
    chunks = make_chunks(cases, jobs, getattr(mod, "PER_CHUNK", None))
    results = [None] * n_cases

    if jobs == 1:
        _worker_init(src, check_name)
        for ch in chunks:
            for r in _worker_run((ch, seed)):
                results[r["idx"]] = r
    else:
        import multiprocessing as mp

        ctx = mp.get_context("spawn")
        with ctx.Pool(jobs, initializer=_worker_init, initargs=(src, check_name)) as pool:
            done = 0
            for rs in pool.imap_unordered(_worker_run, [(ch, seed) for ch in chunks]):
                for r in rs:
                    results[r["idx"]] = r
                done += len(rs)
                if not quiet and sys.stderr.isatty():
                    print(f"\r{pid} {done}/{n_cases}", end="", file=sys.stderr)

    assert all(r is not None for r in results)
    # order-independence pass: a spread of the cases is executed once more, in REVERSE order, inside one fresh worker
    # process. The oracle of every case is unchanged, so any failure here that the main pass did not show is state
    # carried from one call to the next (module-level caches, mutated defaults, aliasing).
    extra = []
    if n_cases >= 4 and jobs > 1 and not getattr(mod, "NO_ORDER_PASS", False):
        ok_idx = [i for i, r in enumerate(results) if r["status"] == "ok"]
        step = max(1, len(ok_idx) // 96)
        pick, budget = [], 60.0  # seconds of main-pass time; expensive cases are skipped, the pass stays cheap
        for i in ok_idx[::step]:
            if results[i]["t"] <= 6.0 and budget - results[i]["t"] >= 0 and len(pick) < 48:
                pick.append(i)
                budget -= results[i]["t"]
        pick = pick[::-1]
        import multiprocessing as mp

        ctx = mp.get_context("spawn")
        with ctx.Pool(1, initializer=_worker_init, initargs=(src, check_name)) as pool:
            rs = pool.apply(_worker_run, (([(i, cases[i]) for i in pick], seed),))
        for r in rs:
            if r["violations"]:
                for x in r["violations"]:
                    x["fp"] = x["fp"] + "/order-dependent"
                    x["msg"] = "only when executed after other cases in one process (reverse order pass): " + x["msg"]
                extra.append((r["idx"], r))
        mod._order_pass = {"cases": len(pick), "violations": len(extra)}
    for i, r in extra:
        results[i]["violations"] = results[i]["violations"] + r["violations"]
        results[i]["status"] = "violation"
    return finish(mod, tier, seed, src, cases, results, t0, exhaustive=not limit)


def finish(mod, tier, seed, src, cases, results, t0, exhaustive=True):
    pid = mod.ID
    known, fixed = load_findings()
    known = [k for k in known if k["property"] == pid]
    counts = {"ok": 0, "violation": 0, "disabled": 0, "rejected": 0, "unconfirmed": 0}
    nt_keys, outcomes = set(), {}
    evals = states = transitions = traces = 0
    viol_lines, known_hits = [], {}
    rejected_kinds = {}
    # runs against another tree (mutants, seeded worktrees) must not touch the evidence / replays of the real tree
    out_root = VERIF if os.path.abspath(src) == DEFAULT_SRC else os.path.join(VERIF, ".scratch", "src-runs", str(os.getpid()))
    os.makedirs(os.path.join(out_root, "replays", pid), exist_ok=True)
    for case, r in zip(cases, results):
        counts[r["status"]] = counts.get(r["status"], 0) + 1
        if r["status"] in ("ok", "violation", "unconfirmed"):
            evals += r["evals"]
            states += r["states"]
            transitions += r["transitions"]
            traces += r["traces"]
            if r.get("nt_keys") is not None:  # a case that bundles several items reports the non-trivial ones itself
                nt_keys.update(r["nt_keys"])
            elif r["nt"]:
                nt_keys.add(r["key"])
            outcomes[r["outcome"]] = outcomes.get(r["outcome"], 0) + 1
        if r["status"] == "rejected":
            rejected_kinds[r.get("note") or "?"] = rejected_kinds.get(r.get("note") or "?", 0) + 1
        for v in r["violations"]:
            kf = next((k for k in known if v["fp"] == k["fp"] or v["fp"].startswith(k["fp"] + "/")), None)
            if kf:
                known_hits.setdefault(kf["fp"], [kf, 0])[1] += 1
                continue
            h = hashlib.sha1((v["fp"] + json.dumps(case, sort_keys=True, default=str)).encode()).hexdigest()[:12]
            path = os.path.join(out_root, "replays", pid, f"{h}.json")
            with open(path, "w") as f:
                json.dump(
                    {"property": pid, "tier": tier, "seed": seed, "src": src, "case": case, "fp": v["fp"], "msg": v["msg"], "detail": v.get("detail")},
                    f,
                    indent=1,
                    default=str,
                )
            viol_lines.append((v["fp"], v["msg"], path))

    executed = counts["ok"] + counts["violation"] + counts["unconfirmed"]
    by_dev = {}
    for case, r in zip(cases, results):
        if "dev" in case and r["status"] in ("ok", "violation", "unconfirmed"):
            k = "full-product" if case["dev"] == -1 else (str(case["dev"]) if case["dev"] < 10 else f"second-centre+{case['dev'] - 10}")
            by_dev[k] = by_dev.get(k, 0) + 1
    # samples: a few actual cases, spread over the enumeration
    ex_idx = [i for i, r in enumerate(results) if r["status"] in ("ok", "violation", "unconfirmed")]
    pick = sorted(set([ex_idx[0], ex_idx[len(ex_idx) // 2], ex_idx[-1]])) if ex_idx else []
    samples = [{"case": cases[i], "status": results[i]["status"], "outcome": results[i]["outcome"], "nontrivial": results[i]["nt"]} for i in pick]

    wall = time.time() - t0
    cov = {
        "evaluations": int(evals),
        "distinct_nontrivial": len(nt_keys),
        "rule": mod.RULE,
        "samples": samples,
        "exhaustive": bool(exhaustive),
        "cases_enumerated": len(cases),
        "cases_executed": executed,
        "cases_disabled_by_precondition": counts["disabled"],
        "cases_rejected_by_library": counts["rejected"],
        "rejected_kinds": rejected_kinds,
        "unconfirmed_numeric_mismatches": counts["unconfirmed"],
        "distinct_outcomes": len(outcomes),
        "outcome_histogram": dict(sorted(outcomes.items(), key=lambda kv: -kv[1])[:12]),
        "bounds": mod.bounds(tier),
        "order_independence_pass": getattr(mod, "_order_pass", None),
        "executed_cases_by_number_of_deviations": by_dev,
        "known_findings_matched": {fp: n for fp, (_, n) in known_hits.items()},
        "fixed_findings_on_record": [f"{f['commit']} {f['what']}" for f in fixed if f["property"] == pid],
        "src": src,
        "slowest_case_s": round(max([r["t"] for r in results] or [0.0]), 2),
        "cpu_s_total": round(sum(r["t"] for r in results), 1),
        "max_numeric_defect_on_passing_cases": max([float(r["metric"]) for r in results if r.get("metric") is not None and r["status"] == "ok"] or [0.0]),
        "slowest_cases": [{"t": round(results[i]["t"], 1), "case": cases[i]} for i in sorted(range(len(cases)), key=lambda i: -results[i]["t"])[:3]],
    }
    if mod.LEVEL == "model_checking":
        cov["states"] = int(states)
        cov["transitions"] = int(transitions)
        cov["traces_validated_against_impl"] = int(traces)
    ev = {
        "property_id": pid,
        "tier": tier,
        "seed": int(seed),
        "level": mod.LEVEL,
        "coverage": cov,
        "assumptions": list(mod.ASSUMPTIONS),
        "wall_s": round(wall, 2),
        "violations": len(viol_lines),
    }
    os.makedirs(os.path.join(out_root, "evidence"), exist_ok=True)
    with open(os.path.join(out_root, "evidence", f"{pid}.json"), "w") as f:
        json.dump(ev, f, indent=1, default=str)

    print(
        f"{pid} tier={tier} seed={seed} cases={len(cases)} executed={executed} disabled={counts['disabled']} "
        f"rejected={counts['rejected']} unconfirmed={counts['unconfirmed']} evaluations={evals} "
        f"distinct_nontrivial={len(nt_keys)} outcomes={len(outcomes)}"
        + (f" states={states} transitions={transitions}" if mod.LEVEL == "model_checking" else "")
        + f" wall={wall:.1f}s"
    )
    for fp, (kf, n) in known_hits.items():
        print(f"KNOWN-FINDING: property={pid} {kf['fp']} {kf['what']} ({n} cases)")
    seen_fp = {}
    for fp, msg, path in viol_lines:
        seen_fp.setdefault(fp, []).append((msg, path))
    for fp, items in seen_fp.items():
        msg, path = items[0]
        print(f"VIOLATION property={pid} replay={path}")
        print(f"  fingerprint={fp} cases={len(items)} first: {msg}")
    if viol_lines:
        return 1
    if executed == 0 or len(nt_keys) < 2:
        # the harness itself is broken (or the library rejects every enabled cell): not a verdict
        print(f"ERROR property={pid} vacuous exploration: executed={executed} distinct_nontrivial={len(nt_keys)}")
        return 2
    return 0


def main(argv=None):
    import argparse

    ap = argparse.ArgumentParser()
    ap.add_argument("check")
    ap.add_argument("--tier", default=os.environ.get("VERIF_TIER", "quick"), choices=["quick", "thorough"])
    ap.add_argument("--replay")
    ap.add_argument("--src", default=os.environ.get("VERIF_SRC", DEFAULT_SRC))
    ap.add_argument("--jobs", type=int, default=int(os.environ.get("VERIF_JOBS", str(os.cpu_count() or 4))))
    ap.add_argument("--limit", type=int)
    a = ap.parse_args(argv)
    seed = int(os.environ.get("VERIF_SEED", "0") or 0)
    if os.environ.get("PYTHONHASHSEED") != "0":
        os.environ["PYTHONHASHSEED"] = "0"
        os.execv(sys.executable, [sys.executable] + sys.argv)
    rc = run_check(a.check, a.tier, seed, a.src, a.jobs, replay=a.replay, limit=a.limit)
    sys.exit(rc)
